#!/bin/bash
# Warm the Go build cache (std with the runtime overlay + all dependencies) and build the driver.
cd "$(dirname "$0")"
V=$(pwd)
. "$V/env.sh"
set -e
"$V/build.sh" "$V/.build/sim.test" invariants
"$V/build.sh" "$V/.build/sim.test"
mkdir -p "$V/.build"
(cd "$V/driver" && CGO_ENABLED=0 $GO build -o "$V/.build/vdrv" .)
echo "prebuild: ok"
