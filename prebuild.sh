#!/bin/bash
# Warm the Go build cache (std with the runtime overlay + all dependencies) and build the driver.
cd "$(dirname "$0")"
V=$(pwd)
. "$V/env.sh"
set -e
"$V/build.sh" "$V/.build/sim.test" invariants
"$V/build.sh" "$V/.build/sim.test"
mkdir -p "$V/.build"
(cd "$V/driver" && CGO_ENABLED=0 $GO build -o "$V/.build/vdrv" .)
# keys for C20's 272-node tables (17 buckets x 16, one fixed victim): searched once, about 3 million trials
if [ ! -s "$V/.build/c20keys.json" ]; then
  (cd "$V/sim" && $GO build -o "$V/.build/c20keys" ./cmd/c20keys && "$V/.build/c20keys" "$V/.build/c20keys.json.tmp" && mv "$V/.build/c20keys.json.tmp" "$V/.build/c20keys.json")
fi
echo "prebuild: ok"
