# sourced by every script: pinned toolchain and offline flags
export GOTOOLCHAIN=local GOFLAGS=-mod=mod GOPROXY=off GOSUMDB=off CGO_ENABLED=0
export GOEXPERIMENT=norandomizedheapbase64
export VERIF_GOROOT=/opt/veriftools/go1.26.8
export GO=$VERIF_GOROOT/bin/go
