#!/bin/bash
# showv.sh engine seed : print violations and probes of one run
/verif/run1.sh $1 $2 2>&1 | grep '^RESULT' | sed 's/^RESULT //' | python3 -c "
import json,sys
r=json.loads(sys.stdin.read())
print('hash',r['hash'],'events',r['events'],'probes',r['probes'],'faults',r['faults'])
for v in r['violations'] or []: print('VIOL',v['property'],v['clause'],v['detail'][:300])
"
