// vdrv: campaign driver for the deterministic simulator.
//
//	vdrv check <PROP> [quick|thorough]   run the property's check, write evidence, exit 0/1/2
//	vdrv replay <file>                   re-execute a replay file in a fresh process
//
// Exit codes: 0 held on everything explored; 1 VIOLATION (line printed); 2 build,
// determinism or watchdog trouble (never a VIOLATION line).
package main

import (
	"bytes"
	"encoding/json"
	"fmt"
	"os"
	"os/exec"
	"path/filepath"
	"regexp"
	"sort"
	"strconv"
	"strings"
	"sync"
	"syscall"
	"time"
)

// verifDir is where this copy of the machinery lives: VERIF_DIR (set by check.sh / replay.sh to their own
// directory, so that a snapshot elsewhere uses its own build output and evidence) or /verif.
var verifDir = func() string {
	if d := os.Getenv("VERIF_DIR"); d != "" {
		return d
	}
	return "/verif"
}()

type engineRef struct {
	Name   string `json:"name"`
	Weight int    `json:"weight"`
}

type tierCfg struct {
	Runs     int `json:"runs"`
	DetSeeds int `json:"det_seeds"`
	BudgetS  int `json:"budget_s"` // wall-clock cap for the campaign (runs stop being started after it)
}

type propCfg struct {
	Engines          []engineRef `json:"engines"`
	Quick            tierCfg     `json:"quick"`
	Thorough         tierCfg     `json:"thorough"`
	TimeoutS         int         `json:"timeout_s"`
	PanicIsViolation bool        `json:"panic_is_violation"`
	Level            string      `json:"level"`
	Rule             string      `json:"rule"`
	Assumptions      []string    `json:"assumptions"`
	RealStub         []string    `json:"real_vs_stub"`
	MemGB            int         `json:"mem_gb"`
	Tags             string      `json:"tags"`
}

type violation struct {
	Property string `json:"property"`
	Clause   string `json:"clause"`
	Detail   string `json:"detail"`
}

type result struct {
	Property   string          `json:"property"`
	Engine     string          `json:"engine"`
	Seed       uint64          `json:"seed"`
	Class      string          `json:"class"`
	Hash       string          `json:"hash"`
	Events     int             `json:"events"`
	VirtualS   float64         `json:"virtual_s"`
	Faults     map[string]int  `json:"faults"`
	Probes     map[string]int  `json:"probes"`
	Shape      string          `json:"shape"`
	Nontrivial bool            `json:"nontrivial"`
	Ops        []string        `json:"ops"`
	Violations []violation     `json:"violations"`
	Note       string          `json:"note,omitempty"`
	Plan       json.RawMessage `json:"plan,omitempty"`
}

type runOutcome struct {
	engine  string
	seed    uint64
	res     *result
	crashed bool   // process died without a result
	trouble string // harness trouble (SIMFATAL, timeout)
	tail    string
	wall    time.Duration
}

type knownFinding struct {
	Property string `json:"property"`
	Clause   string `json:"clause"`
	Match    string `json:"match"`
	What     string `json:"what"`
}

type knownFile struct {
	Findings []knownFinding `json:"findings"`
	Fixed    []string       `json:"fixed"`
}

func die2(format string, a ...any) {
	fmt.Fprintf(os.Stderr, "vdrv: "+format+"\n", a...)
	os.Exit(2)
}

func loadProps() map[string]propCfg {
	b, err := os.ReadFile(filepath.Join(verifDir, "props.json"))
	if err != nil {
		die2("props.json: %v", err)
	}
	m := map[string]propCfg{}
	if err := json.Unmarshal(b, &m); err != nil {
		die2("props.json: %v", err)
	}
	return m
}

func loadKnown() knownFile {
	var k knownFile
	b, err := os.ReadFile(filepath.Join(verifDir, "known_findings.json"))
	if err != nil {
		return k
	}
	if err := json.Unmarshal(b, &k); err != nil {
		die2("known_findings.json: %v", err)
	}
	return k
}

func (k knownFile) match(v violation) *knownFinding {
	for i := range k.Findings {
		f := &k.Findings[i]
		if f.Property != v.Property || f.Clause != v.Clause {
			continue
		}
		if f.Match == "" {
			return f
		}
		if ok, _ := regexp.MatchString(f.Match, v.Detail); ok {
			return f
		}
	}
	return nil
}

// build compiles the runner from /repo's working tree into a per-property binary.
// altKey is non-empty when the checks run against another checkout than /repo (VERIF_REPO):
// binaries, evidence and replay files then go to a scratch area, never to /verif/evidence.
func altKey() string {
	r := os.Getenv("VERIF_REPO")
	if r == "" || r == "/repo" {
		return ""
	}
	return strings.NewReplacer("/", "_").Replace(strings.Trim(r, "/"))
}

func outDir(kind string) string {
	if k := altKey(); k != "" {
		return filepath.Join(verifDir, ".build", "alt", k, kind)
	}
	return filepath.Join(verifDir, kind)
}

func build(prop, tags string) string {
	out := filepath.Join(verifDir, ".build", "bin", prop+altKey()+".test")
	os.MkdirAll(filepath.Dir(out), 0o755)
	cmd := exec.Command(filepath.Join(verifDir, "build.sh"), out, tags)
	var buf bytes.Buffer
	cmd.Stdout = &buf
	cmd.Stderr = &buf
	if err := cmd.Run(); err != nil {
		fmt.Fprintln(os.Stderr, buf.String())
		die2("build failed: %v", err)
	}
	return out
}

func runOne(bin, engine string, seed uint64, tier string, timeout time.Duration, extraEnv []string, dir string, memGB int) runOutcome {
	o := runOutcome{engine: engine, seed: seed}
	outFile := filepath.Join(dir, fmt.Sprintf("%s-%d-%d.json", engine, seed, time.Now().UnixNano()))
	defer os.Remove(outFile)
	args := []string{"-test.run", "^TestSim$", "-test.cpu", "1", "-test.timeout", "0"}
	cmd := exec.Command(bin, args...)
	cmd.Dir = dir
	cmd.Env = append(os.Environ(),
		"GODEBUG=asyncpreemptoff=1,randautoseed=0",
		"GOMAXPROCS=1",
		"VERIF_ENGINE="+engine,
		"VERIF_SEED="+strconv.FormatUint(seed, 10),
		"VERIF_TIER="+tier,
		"VERIF_OUT="+outFile,
	)
	cmd.Env = append(cmd.Env, extraEnv...)
	var buf bytes.Buffer
	cmd.Stdout = &buf
	cmd.Stderr = &buf
	cmd.SysProcAttr = &syscall.SysProcAttr{Setpgid: true}
	start := time.Now()
	if err := cmd.Start(); err != nil {
		o.trouble = "start: " + err.Error()
		return o
	}
	done := make(chan error, 1)
	go func() { done <- cmd.Wait() }()
	var werr error
	select {
	case werr = <-done:
	case <-time.After(timeout):
		syscall.Kill(-cmd.Process.Pid, syscall.SIGQUIT)
		select {
		case <-done:
		case <-time.After(5 * time.Second):
			syscall.Kill(-cmd.Process.Pid, syscall.SIGKILL)
			<-done
		}
		o.trouble = fmt.Sprintf("watchdog: run exceeded %v wall", timeout)
	}
	o.wall = time.Since(start)
	out := buf.String()
	if len(out) > 6000 {
		o.tail = out[:3000] + "\n...\n" + out[len(out)-3000:]
	} else {
		o.tail = out
	}
	if o.trouble != "" {
		return o
	}
	b, rerr := os.ReadFile(outFile)
	if rerr == nil {
		var r result
		if err := json.Unmarshal(b, &r); err != nil {
			o.trouble = "bad result json: " + err.Error()
			return o
		}
		o.res = &r
		return o
	}
	if strings.Contains(out, "SIMFATAL") {
		o.trouble = "runner: " + firstLineWith(out, "SIMFATAL")
		return o
	}
	if werr != nil {
		o.crashed = true
		return o
	}
	o.trouble = "no result file and exit 0"
	return o
}

func firstLineWith(s, sub string) string {
	for _, l := range strings.Split(s, "\n") {
		if strings.Contains(l, sub) {
			return l
		}
	}
	return ""
}

// crashSignature condenses a Go panic dump: message + first frames in the code under test.
func crashSignature(out string) string {
	lines := strings.Split(out, "\n")
	msg := ""
	var frames []string
	for i, l := range lines {
		if msg == "" && (strings.HasPrefix(l, "panic:") || strings.HasPrefix(l, "fatal error:")) {
			msg = l
			_ = i
			continue
		}
		if msg != "" && strings.Contains(l, "github.com/zen-eth/shisui/") && !strings.HasPrefix(l, "\t") {
			f := l
			if j := strings.LastIndex(f, "("); j > 0 {
				f = f[:j]
			}
			f = strings.TrimPrefix(f, "github.com/zen-eth/shisui/")
			frames = append(frames, f)
			if len(frames) >= 3 {
				break
			}
		}
	}
	if msg == "" {
		msg = "process died"
	}
	if len(frames) == 0 {
		// no frame of the repository on the crashing stack (a dependency's own goroutine): name the first
		// frames of the first goroutine of the dump, whatever package they are in
		seen := false
		for _, l := range lines {
			if strings.HasPrefix(l, "goroutine ") {
				if seen {
					break
				}
				seen = true
				continue
			}
			if !seen || l == "" || strings.HasPrefix(l, "\t") || strings.HasPrefix(l, "created by") || strings.HasPrefix(l, "panic(") || strings.HasPrefix(l, "runtime.") {
				continue
			}
			f := l
			if j := strings.LastIndex(f, "("); j > 0 {
				f = f[:j]
			}
			if k := strings.LastIndex(f, "/"); k >= 0 {
				f = f[k+1:]
			}
			frames = append(frames, f)
			if len(frames) >= 3 {
				break
			}
		}
	}
	return msg + " @ " + strings.Join(frames, " < ")
}

type evidence struct {
	PropertyID  string         `json:"property_id"`
	Tier        string         `json:"tier"`
	Seed        int64          `json:"seed"`
	Level       string         `json:"level"`
	Coverage    map[string]any `json:"coverage"`
	Assumptions []string       `json:"assumptions"`
	WallS       float64        `json:"wall_s"`
	Violations  int            `json:"violations"`
}

func main() {
	if len(os.Args) < 3 {
		die2("usage: vdrv check <PROP> [quick|thorough] | vdrv replay <file>")
	}
	switch os.Args[1] {
	case "check":
		tier := "quick"
		if len(os.Args) > 3 {
			tier = os.Args[3]
		}
		if t := os.Getenv("VERIF_TIER"); t != "" && len(os.Args) <= 3 {
			tier = t
		}
		os.Exit(check(os.Args[2], tier))
	case "replay":
		os.Exit(replay(os.Args[2]))
	default:
		die2("unknown command %s", os.Args[1])
	}
}

type replayFile struct {
	Property string          `json:"property"`
	Engine   string          `json:"engine"`
	Seed     uint64          `json:"seed"`
	Clause   string          `json:"clause"`
	Detail   string          `json:"detail"`
	Hash     string          `json:"hash"`
	Plan     json.RawMessage `json:"plan"`
	Note     string          `json:"note,omitempty"`
}

func baseSeed() uint64 {
	s := os.Getenv("VERIF_SEED")
	if s == "" {
		return 1
	}
	v, err := strconv.ParseUint(s, 10, 64)
	if err != nil {
		iv, err2 := strconv.ParseInt(s, 10, 64)
		if err2 != nil {
			die2("bad VERIF_SEED %q", s)
		}
		v = uint64(iv)
	}
	return v
}

func check(prop, tier string) int {
	props := loadProps()
	pc, ok := props[prop]
	if !ok {
		die2("no such property in props.json: %s", prop)
	}
	known := loadKnown()
	tc := pc.Quick
	if tier == "thorough" {
		tc = pc.Thorough
	}
	if v := os.Getenv("VERIF_RUNS"); v != "" {
		tc.Runs, _ = strconv.Atoi(v)
	}
	start := time.Now()
	bin := build(prop, pc.Tags)
	buildWall := time.Since(start)
	dir := filepath.Join(verifDir, ".build", "runs", fmt.Sprintf("%s%s-%d", prop, altKey(), os.Getpid()))
	os.MkdirAll(dir, 0o755)
	defer os.RemoveAll(dir)
	timeout := time.Duration(pc.TimeoutS) * time.Second
	if timeout == 0 {
		timeout = 120 * time.Second
	}
	base := baseSeed()

	// job list: weighted round-robin over the property's engines
	type job struct {
		engine string
		seed   uint64
		det    bool // determinism re-run of an earlier job
		idx    int  // index among the runs of the same engine (enumeration classes use it)
	}
	perEngineIdx := map[string]int{}
	var jobs []job
	var wsum int
	for _, e := range pc.Engines {
		if e.Weight <= 0 {
			e.Weight = 1
		}
		wsum += e.Weight
	}
	for i := 0; i < tc.Runs; i++ {
		k := i % wsum
		var eng string
		for _, e := range pc.Engines {
			wgt := e.Weight
			if wgt <= 0 {
				wgt = 1
			}
			if k < wgt {
				eng = e.Name
				break
			}
			k -= wgt
		}
		jobs = append(jobs, job{engine: eng, seed: base*1000003 + uint64(i), idx: perEngineIdx[eng]})
		perEngineIdx[eng]++
	}
	// determinism self-test: first DetSeeds jobs are run two more times
	nd := tc.DetSeeds
	if nd > len(jobs) {
		nd = len(jobs)
	}
	for r := 0; r < 2; r++ {
		for i := 0; i < nd; i++ {
			jobs = append(jobs, job{engine: jobs[i].engine, seed: jobs[i].seed, det: true, idx: jobs[i].idx})
		}
	}

	workers := 16
	if v := os.Getenv("VERIF_WORKERS"); v != "" {
		workers, _ = strconv.Atoi(v)
	}
	budget := time.Duration(tc.BudgetS) * time.Second
	outcomes := make([]runOutcome, len(jobs))
	ran := make([]bool, len(jobs))
	var mu sync.Mutex
	next := 0
	var wg sync.WaitGroup
	for wk := 0; wk < workers; wk++ {
		wg.Add(1)
		go func() {
			defer wg.Done()
			for {
				mu.Lock()
				if next >= len(jobs) {
					mu.Unlock()
					return
				}
				i := next
				next++
				mu.Unlock()
				// past the budget only determinism re-runs are still executed
				if budget > 0 && time.Since(start) > budget && !jobs[i].det && i >= nd {
					continue
				}
				outcomes[i] = runOne(bin, jobs[i].engine, jobs[i].seed, tier, timeout, []string{"VERIF_RUNIDX=" + strconv.Itoa(jobs[i].idx)}, dir, pc.MemGB)
				ran[i] = true
			}
		}()
	}
	wg.Wait()

	// ---- classify ----
	var troubles []string
	firstHash := map[string]string{}
	detChecked, detMismatch := 0, 0
	type viol struct {
		v       violation
		engine  string
		seed    uint64
		idx     int
		crashed bool
		tail    string
	}
	var viols []viol
	evals := 0
	shapes := map[string]bool{}
	faults := map[string]int{}
	probes := map[string]int{}
	var virt float64
	var samples []any
	perEngine := map[string]int{}
	otherProps := map[string]int{}
	events := 0
	for i, o := range outcomes {
		if !ran[i] {
			continue
		}
		j := jobs[i]
		key := fmt.Sprintf("%s/%d", j.engine, j.seed)
		if o.trouble != "" {
			troubles = append(troubles, key+": "+o.trouble+"\n"+o.tail)
			continue
		}
		if o.crashed {
			sig := crashSignature(o.tail)
			if j.det {
				continue
			}
			evals++
			if pc.PanicIsViolation {
				viols = append(viols, viol{v: violation{Property: prop, Clause: "crash", Detail: sig}, engine: j.engine, seed: j.seed, idx: j.idx, crashed: true, tail: o.tail})
			} else {
				troubles = append(troubles, key+": process died: "+sig+"\n"+o.tail)
			}
			continue
		}
		r := o.res
		if j.det {
			detChecked++
			if firstHash[key] != r.Hash {
				detMismatch++
				troubles = append(troubles, fmt.Sprintf("NONDETERMINISM %s: %s vs %s", key, firstHash[key], r.Hash))
			}
			continue
		}
		firstHash[key] = r.Hash
		evals++
		perEngine[j.engine]++
		events += r.Events
		virt += r.VirtualS
		if r.Nontrivial {
			shapes[j.engine+":"+r.Shape] = true
		}
		for k, v := range r.Faults {
			faults[k] += v
		}
		for k, v := range r.Probes {
			probes[k] += v
		}
		if len(samples) < 3 && len(r.Ops) > 0 && r.Nontrivial {
			ops := r.Ops
			if len(ops) > 25 {
				ops = ops[:25]
			}
			samples = append(samples, map[string]any{"engine": j.engine, "seed": r.Seed, "class": r.Class, "ops": ops})
		}
		for _, v := range r.Violations {
			if v.Property != prop {
				otherProps[v.Property]++
				continue // reported by that property's own check
			}
			viols = append(viols, viol{v: v, engine: j.engine, seed: j.seed, idx: j.idx})
		}
	}

	wall := time.Since(start)
	// ---- known findings vs new violations ----
	knownHit := map[string]int{}
	var fresh []viol
	for _, v := range viols {
		if f := known.match(v.v); f != nil {
			knownHit[f.Property+" "+f.What]++
		} else {
			fresh = append(fresh, v)
		}
	}
	for k := range knownHit {
		fmt.Printf("KNOWN-FINDING: property=%s (%d runs hit it)\n", k, knownHit[k])
	}

	exit := 0
	replayPath := ""
	if len(troubles) > 0 {
		sort.Strings(troubles)
		for i, t := range troubles {
			if i >= 5 {
				break
			}
			fmt.Fprintln(os.Stderr, "TROUBLE "+t)
		}
		exit = 2
	}
	if len(fresh) > 0 && exit != 2 {
		// report the first by (engine, seed) order for stability
		sort.Slice(fresh, func(a, b int) bool {
			if fresh[a].engine != fresh[b].engine {
				return fresh[a].engine < fresh[b].engine
			}
			return fresh[a].seed < fresh[b].seed
		})
		v := fresh[0]
		replayPath = minimiseAndWrite(bin, prop, v.engine, v.seed, v.idx, v.v, v.crashed, tier, timeout, dir, known)
		fmt.Printf("violation: %s clause=%s engine=%s seed=%d: %s\n", prop, v.v.Clause, v.engine, v.seed, v.v.Detail)
		seenSig := map[string]bool{sigOf(v.v): true}
		for _, o := range fresh[1:] {
			if sg := sigOf(o.v); !seenSig[sg] && len(seenSig) < 25 {
				seenSig[sg] = true
				fmt.Printf("also: clause=%s engine=%s seed=%d: %s\n", o.v.Clause, o.engine, o.seed, o.v.Detail)
			}
		}
		fmt.Printf("VIOLATION property=%s replay=%s\n", prop, replayPath)
		exit = 1
	}

	// ---- evidence ----
	if len(samples) == 0 {
		samples = append(samples, map[string]any{"note": "no non-trivial run produced an op list"})
	}
	hours := wall.Hours()
	cov := map[string]any{
		"evaluations":         evals,
		"distinct_nontrivial": len(shapes),
		"rule":                pc.Rule,
		"samples":             samples,
		"runs_per_hour":       int(float64(evals) / hours),
		"simulated_seconds":   virt,
		"journal_events":      events,
		"faults_fired":        faults,
		"probes_hit":          probes,
		"runs_per_engine":     perEngine,
		"real_vs_stub":        pc.RealStub,
		"determinism_selftest": map[string]any{"reruns": detChecked, "mismatches": detMismatch},
		"build_wall_s":        buildWall.Seconds(),
		"known_findings_hit":  knownHit,
		"exhaustive":          false,
	}
	if len(otherProps) > 0 {
		cov["violations_of_other_properties_seen"] = otherProps
	}
	if len(viols) > 0 {
		cov["violating_runs"] = len(viols)
	}
	ev := evidence{PropertyID: prop, Tier: tier, Seed: int64(base), Level: pc.Level, Coverage: cov, Assumptions: pc.Assumptions, WallS: wall.Seconds(), Violations: len(fresh)}
	if exit != 2 {
		os.MkdirAll(outDir("evidence"), 0o755)
		b, _ := json.MarshalIndent(ev, "", " ")
		if err := os.WriteFile(filepath.Join(outDir("evidence"), prop+".json"), b, 0o644); err != nil {
			die2("evidence: %v", err)
		}
	}
	fmt.Printf("%s %s: runs=%d distinct=%d virtual=%.0fs wall=%.1fs det=%d/%d faults=%v exit=%d\n", prop, tier, evals, len(shapes), virt, wall.Seconds(), detChecked-detMismatch, detChecked, faults, exit)
	return exit
}

// sigOf groups violations for the summary: clause plus the detail with numbers blanked.
var reNum = regexp.MustCompile(`[0-9a-fx#]{3,}`)

func sigOf(v violation) string {
	d := v.Detail
	if len(d) > 160 {
		d = d[:160]
	}
	return v.Clause + "|" + reNum.ReplaceAllString(d, "N")
}

// ---------- replay and minimisation ----------

type planT struct {
	Engine string           `json:"engine"`
	Seed   uint64           `json:"seed"`
	Class  string           `json:"class"`
	Cfg    map[string]int64 `json:"cfg"`
	Ops    []json.RawMessage `json:"ops"`
}

// tryPlan executes a plan in a fresh process; reports whether the clause fails again.
func tryPlan(bin, prop, engine string, seed uint64, plan *planT, clause string, crashed bool, tier string, timeout time.Duration, dir string) (bool, *runOutcome) {
	pf := filepath.Join(dir, fmt.Sprintf("plan-%d.json", time.Now().UnixNano()))
	b, _ := json.Marshal(plan)
	os.WriteFile(pf, b, 0o644)
	defer os.Remove(pf)
	o := runOne(bin, engine, seed, tier, timeout, []string{"VERIF_REPLAY=" + pf}, dir, 0)
	if o.trouble != "" {
		return false, &o
	}
	if crashed {
		return o.crashed, &o
	}
	if o.res == nil {
		return false, &o
	}
	for _, v := range o.res.Violations {
		if v.Clause == clause && v.Property == prop {
			return true, &o
		}
	}
	return false, &o
}

func minimiseAndWrite(bin, prop, engine string, seed uint64, runIdx int, v violation, crashed bool, tier string, timeout time.Duration, dir string, known knownFile) string {
	os.MkdirAll(outDir("replays"), 0o755)
	path := filepath.Join(outDir("replays"), fmt.Sprintf("%s-%d.json", prop, seed))
	// obtain the plan of the failing run
	planOut := filepath.Join(dir, "planout.json")
	os.Remove(planOut)
	runOne(bin, engine, seed, tier, timeout, []string{"VERIF_PLANOUT=" + planOut, "VERIF_RUNIDX=" + strconv.Itoa(runIdx)}, dir, 0)
	rf := replayFile{Property: prop, Engine: engine, Seed: seed, Clause: v.Clause, Detail: v.Detail}
	pb, err := os.ReadFile(planOut)
	if err != nil {
		rf.Note = "engine wrote no plan; replay by seed only"
		b, _ := json.MarshalIndent(rf, "", " ")
		os.WriteFile(path, b, 0o644)
		return path
	}
	var plan planT
	if err := json.Unmarshal(pb, &plan); err != nil {
		rf.Note = "plan not parseable; replay by seed only"
		b, _ := json.MarshalIndent(rf, "", " ")
		os.WriteFile(path, b, 0o644)
		return path
	}
	ok, o := tryPlan(bin, prop, engine, seed, &plan, v.Clause, crashed, tier, timeout, dir)
	if !ok {
		rf.Note = "explicit plan did not reproduce; replay by seed"
		b, _ := json.MarshalIndent(rf, "", " ")
		os.WriteFile(path, b, 0o644)
		return path
	}
	best := plan
	bestO := o
	deadline := time.Now().Add(150 * time.Second)
	tries := 0
	test := func(p *planT) bool {
		if time.Now().After(deadline) {
			return false
		}
		tries++
		ok, oo := tryPlan(bin, prop, engine, seed, p, v.Clause, crashed, tier, timeout, dir)
		if ok {
			bestO = oo
		}
		return ok
	}
	// 1. switch fault injection off
	if best.Cfg != nil && best.Cfg["faults"] != 0 {
		c := clonePlan(&best)
		c.Cfg["faults"] = 0
		if test(c) {
			best = *c
		}
	}
	// 2. ddmin over the op list
	n := 2
	for len(best.Ops) >= 1 && time.Now().Before(deadline) {
		chunk := (len(best.Ops) + n - 1) / n
		reduced := false
		for i := 0; i < len(best.Ops); i += chunk {
			c := clonePlan(&best)
			end := i + chunk
			if end > len(c.Ops) {
				end = len(c.Ops)
			}
			c.Ops = append(append([]json.RawMessage{}, best.Ops[:i]...), best.Ops[end:]...)
			if test(c) {
				best = *c
				if n > 2 {
					n--
				}
				reduced = true
				break
			}
		}
		if !reduced {
			if chunk <= 1 {
				break
			}
			n *= 2
			if n > len(best.Ops) {
				n = len(best.Ops)
			}
		}
	}
	rf.Plan, _ = json.Marshal(best)
	if bestO != nil && bestO.res != nil {
		rf.Hash = bestO.res.Hash
		for _, vv := range bestO.res.Violations {
			if vv.Clause == v.Clause {
				rf.Detail = vv.Detail
			}
		}
	}
	rf.Note = fmt.Sprintf("minimised from %d to %d ops in %d replays", len(plan.Ops), len(best.Ops), tries)
	b, _ := json.MarshalIndent(rf, "", " ")
	os.WriteFile(path, b, 0o644)
	return path
}

func clonePlan(p *planT) *planT {
	c := *p
	c.Cfg = map[string]int64{}
	for k, v := range p.Cfg {
		c.Cfg[k] = v
	}
	c.Ops = append([]json.RawMessage{}, p.Ops...)
	return &c
}

func replay(path string) int {
	b, err := os.ReadFile(path)
	if err != nil {
		die2("replay: %v", err)
	}
	var rf replayFile
	if err := json.Unmarshal(b, &rf); err != nil {
		die2("replay: %v", err)
	}
	props := loadProps()
	pc := props[rf.Property]
	bin := build(rf.Property, pc.Tags)
	dir := filepath.Join(verifDir, ".build", "runs", fmt.Sprintf("replay-%d", os.Getpid()))
	os.MkdirAll(dir, 0o755)
	defer os.RemoveAll(dir)
	timeout := time.Duration(pc.TimeoutS) * time.Second
	if timeout == 0 {
		timeout = 120 * time.Second
	}
	var env []string
	if len(rf.Plan) > 0 {
		pf := filepath.Join(dir, "plan.json")
		os.WriteFile(pf, rf.Plan, 0o644)
		env = append(env, "VERIF_REPLAY="+pf)
	}
	env = append(env, "VERIF_KEEPLOG=1")
	o := runOne(bin, rf.Engine, rf.Seed, "quick", timeout, env, dir, 0)
	if o.trouble != "" {
		fmt.Fprintln(os.Stderr, o.trouble, o.tail)
		return 2
	}
	if o.crashed {
		fmt.Printf("replay: process died: %s\n", crashSignature(o.tail))
		if rf.Clause == "crash" {
			fmt.Printf("VIOLATION property=%s replay=%s\n", rf.Property, path)
			return 1
		}
		return 2
	}
	fmt.Printf("replay: hash=%s (recorded %s) events=%d\n", o.res.Hash, rf.Hash, o.res.Events)
	for _, op := range o.res.Ops {
		fmt.Println("  op:", op)
	}
	for _, v := range o.res.Violations {
		fmt.Printf("  violation clause=%s: %s\n", v.Clause, v.Detail)
		if v.Clause == rf.Clause {
			fmt.Printf("VIOLATION property=%s replay=%s\n", rf.Property, path)
			return 1
		}
	}
	fmt.Println("replay: violation not reproduced")
	return 0
}
