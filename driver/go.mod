module verif/driver

go 1.26.8
