#!/bin/bash
# trymut.sh <worktree> <PROP>... : run the quick checks of the given properties against another
# checkout (a scratch worktree with a seeded change applied). Evidence/replays go to .build/alt/.
WT=$1; shift
cd "$(dirname "$0")"
for p in "$@"; do
  VERIF_REPO="$WT" ./check.sh "$p" quick 2>&1 | grep -E "^violation|^also|^VIOLATION|^KNOWN|quick:|TROUBLE|failed" | cut -c1-330 | head -12
done
