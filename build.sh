#!/bin/bash
# Build the runner test binary from /repo's current working tree (hooks on) with the runtime overlay.
#   build.sh <out> [extra,tags]
set -euo pipefail
cd "$(dirname "$0")"
V=$(pwd)
. "$V/env.sh"
B="$V/.build"
if [ ! -f "$B/geth/.stamp" ] || [ ! -f "$B/rtoverlay/overlay.json" ] || [ ! -x "$B/instr" ]; then "$V/setup.sh" >&2; fi
OUT="$(realpath -m "${1:-$B/sim.test}")"
TAGS="verif${2:+,$2}"
(
  flock 9
  # cooperative yield points in a scratch copy of storage.go (structural, see instr/main.go)
  mkdir -p "$B/instr.d"
  "$B/instr" /repo/storage/pebble/storage.go "$B/instr.d/storage.go.new" 2>/dev/null || { echo "build: instrumenting storage.go failed" >&2; exit 2; }
  if ! cmp -s "$B/instr.d/storage.go.new" "$B/instr.d/storage.go"; then mv "$B/instr.d/storage.go.new" "$B/instr.d/storage.go"; else rm -f "$B/instr.d/storage.go.new"; fi
  python3 - "$B" <<'PY'
import json,sys
B=sys.argv[1]
o=json.load(open(B+"/rtoverlay/overlay.json"))
o["Replace"]["/repo/storage/pebble/storage.go"]=B+"/instr.d/storage.go"
new=json.dumps(o,indent=1,sort_keys=True)
try: old=open(B+"/overlay.json").read()
except Exception: old=""
if new!=old: open(B+"/overlay.json","w").write(new)
PY
  cp -f /repo/go.sum "$V/sim/go.sum"
) 9>"$B/build.lock"
cd "$V/sim"
$GO test -c -tags "$TAGS" -overlay "$B/overlay.json" -o "$OUT" . >&2
