#!/bin/bash
# Build the runner test binary from /repo's current working tree (hooks on) with the runtime overlay.
set -euo pipefail
cd "$(dirname "$0")"
V=$(pwd)
. "$V/env.sh"
[ -f "$V/.build/geth/.stamp" ] || "$V/setup.sh" >&2
[ -f "$V/.build/rtoverlay/overlay.json" ] || "$V/setup.sh" >&2
cd "$V/sim"
cp /repo/go.sum "$V/sim/go.sum.repo"
OUT="${1:-$V/.build/sim.test}"
$GO test -c -tags verif -overlay "$V/.build/overlay.json" -o "$OUT" . >&2
