#!/bin/bash
# Build the runner test binary from the repository's current working tree (hooks on) with the
# runtime overlay.   build.sh <out> [extra,tags]
# The repository is /repo unless VERIF_REPO names another checkout (used to try seeded changes in
# scratch worktrees without touching /repo).
set -euo pipefail
cd "$(dirname "$0")"
V=$(pwd)
. "$V/env.sh"
B="$V/.build"
REPO="${VERIF_REPO:-/repo}"
if [ ! -f "$B/geth/.stamp" ] || [ ! -f "$B/rtoverlay/overlay.json" ] || [ ! -x "$B/instr" ] || [ "$V/rtoverlay/mkoverlay.py" -nt "$B/rtoverlay/overlay.json" ] || [ "$V/instr/main.go" -nt "$B/instr" ]; then "$V/setup.sh" >&2; fi
OUT="$(realpath -m "${1:-$B/sim.test}")"
TAGS="verif${2:+,$2}"
KEY=$(echo -n "$REPO" | md5sum | cut -c1-10)
ID="$B/instr.d/$KEY"
MOD="$V/sim"
SRC="${VERIF_SIMSRC:-$V/sim}" # a frozen copy of the simulator sources (seedsweep.sh), only with VERIF_REPO
(
  flock 9
  # cooperative yield points in a scratch copy of storage.go (structural, see instr/main.go)
  mkdir -p "$ID"
  "$B/instr" -lockhook VerifYieldLock "$REPO/storage/pebble/storage.go" "$ID/storage.go.new" 2>/dev/null || { echo "build: instrumenting storage.go failed" >&2; exit 2; }
  cat > "$ID/zz_verif_pebble_yieldlock.go.new" <<'GO'
//go:build verif

package pebble

// Added by the verification build overlay only (not part of the repository).

// VerifYieldLockHook is called before every mu.Lock() / mu.RLock() statement of the instrumented store,
// with the address of the mutex.
var VerifYieldLockHook func(site string, mu any)

func VerifYieldLock(site string, mu any) {
	if h := VerifYieldLockHook; h != nil {
		h(site, mu)
	}
}
GO
  if ! cmp -s "$ID/zz_verif_pebble_yieldlock.go.new" "$ID/zz_verif_pebble_yieldlock.go"; then mv "$ID/zz_verif_pebble_yieldlock.go.new" "$ID/zz_verif_pebble_yieldlock.go"; else rm -f "$ID/zz_verif_pebble_yieldlock.go.new"; fi
  if ! cmp -s "$ID/storage.go.new" "$ID/storage.go"; then mv "$ID/storage.go.new" "$ID/storage.go"; else rm -f "$ID/storage.go.new"; fi
  # the same for the routing table (portalwire/table.go, table_reval.go): the hook is declared by a file
  # that only the overlay adds to the package
  for f in table table_reval; do
    "$B/instr" -recv Table,tableRevalidation -hook VerifYieldTable "$REPO/portalwire/$f.go" "$ID/$f.go.new" 2>/dev/null || { echo "build: instrumenting $f.go failed" >&2; exit 2; }
    if ! cmp -s "$ID/$f.go.new" "$ID/$f.go"; then mv "$ID/$f.go.new" "$ID/$f.go"; else rm -f "$ID/$f.go.new"; fi
  done
  # ... and for the offer path of the protocol (the handlers and workers that share the in-flight marks, the
  # transfer slots and the version cache): selected methods of *PortalProtocol
  PFUNCS=handleOffer,filterContentKeys,filterContentKeysV0,filterContentKeysV1,cacheTransferringKeys,deleteTransferringContentKeys,transferringCount,handleOfferedContents,processOffer,offer,offerWorker,getOrStoreHighestVersion,handleFindContent
  for f in portal_protocol portal_protocol_v1; do
    "$B/instr" -recv PortalProtocol -funcs "$PFUNCS" -hook VerifYieldProto "$REPO/portalwire/$f.go" "$ID/$f.go.new" 2>/dev/null || { echo "build: instrumenting $f.go failed" >&2; exit 2; }
    if [ "$f" = portal_protocol ]; then
      # second pass, own hook: gossip target selection is only scheduled where an engine asks for it (the
      # harness itself calls Gossip from its stepping goroutine in the other engines)
      "$B/instr" -recv PortalProtocol -funcs GossipAndReturnPeers -hook VerifYieldGossip "$ID/$f.go.new" "$ID/$f.go.new2" 2>/dev/null || { echo "build: instrumenting $f.go (gossip) failed" >&2; exit 2; }
      mv "$ID/$f.go.new2" "$ID/$f.go.new"
    fi
    if ! cmp -s "$ID/$f.go.new" "$ID/$f.go"; then mv "$ID/$f.go.new" "$ID/$f.go"; else rm -f "$ID/$f.go.new"; fi
  done
  cat > "$ID/zz_verif_yield.go.new" <<'GO'
package portalwire

import "github.com/ethereum/go-ethereum/p2p/enode"

// Added by the verification build overlay only (not part of the repository).

// VerifTableYieldHook is called at every yield point of the instrumented routing table.
var VerifTableYieldHook func(site string)

func VerifYieldTable(site string) {
	if h := VerifTableYieldHook; h != nil {
		h(site)
	}
}

// VerifGossipYieldHook is called at every yield point of the instrumented gossip target selection.
var VerifGossipYieldHook func(site string)

func VerifYieldGossip(site string) {
	if h := VerifGossipYieldHook; h != nil {
		h(site)
	}
}

// VerifAppendBucketNodes is what handleFindNodes calls per requested distance.
func (tab *Table) VerifAppendBucketNodes(dist uint, result []*enode.Node, checkLive bool) []*enode.Node {
	return tab.appendBucketNodes(dist, result, checkLive)
}

// VerifProtoYieldHook is called at every yield point of the instrumented offer path.
var VerifProtoYieldHook func(site string)

func VerifYieldProto(site string) {
	if h := VerifProtoYieldHook; h != nil {
		h(site)
	}
}
GO
  if ! cmp -s "$ID/zz_verif_yield.go.new" "$ID/zz_verif_yield.go"; then mv "$ID/zz_verif_yield.go.new" "$ID/zz_verif_yield.go"; else rm -f "$ID/zz_verif_yield.go.new"; fi
  python3 - "$B" "$REPO" "$ID" <<'PY'
import json,sys
B,REPO,ID=sys.argv[1:4]
o=json.load(open(B+"/rtoverlay/overlay.json"))
o["Replace"][REPO+"/storage/pebble/storage.go"]=ID+"/storage.go"
o["Replace"][REPO+"/storage/pebble/zz_verif_yieldlock.go"]=ID+"/zz_verif_pebble_yieldlock.go"
o["Replace"][REPO+"/portalwire/table.go"]=ID+"/table.go"
o["Replace"][REPO+"/portalwire/table_reval.go"]=ID+"/table_reval.go"
o["Replace"][REPO+"/portalwire/portal_protocol.go"]=ID+"/portal_protocol.go"
o["Replace"][REPO+"/portalwire/portal_protocol_v1.go"]=ID+"/portal_protocol_v1.go"
o["Replace"][REPO+"/portalwire/zz_verif_yield.go"]=ID+"/zz_verif_yield.go"
new=json.dumps(o,indent=1,sort_keys=True)
try: old=open(ID+"/overlay.json").read()
except Exception: old=""
if new!=old: open(ID+"/overlay.json","w").write(new)
PY
  if [ "$REPO" = "/repo" ] && [ "$V" = "/verif" ]; then
    cp -f /repo/go.sum "$V/sim/go.sum"
  else
    # a module directory of its own whose go.mod points at the other checkout
    mkdir -p "$B/mods/$KEY"
    rsync -a --delete --exclude go.mod --exclude go.sum "$SRC/" "$B/mods/$KEY/"
    sed "s|=> /repo\$|=> $REPO|; s|=> /verif/.build/geth\$|=> $B/geth|" "$SRC/go.mod" > "$B/mods/$KEY/go.mod"
    cp -f "$REPO/go.sum" "$B/mods/$KEY/go.sum"
  fi
) 9>"$B/build.lock"
if [ "$REPO" != "/repo" ] || [ "$V" != "/verif" ]; then MOD="$B/mods/$KEY"; fi
cd "$MOD"
$GO test -c -tags "$TAGS" -overlay "$ID/overlay.json" -o "$OUT" . >&2
