#!/bin/bash
# remove build output that belongs to scratch checkouts (VERIF_REPO) which no longer exist
cd "$(dirname "$0")/.build" 2>/dev/null || exit 0
for f in bin/*tmp_*.test; do
  [ -e "$f" ] || continue
  key=$(basename "$f" .test | sed 's/^C[0-9]*//')       # tmp_mut_chk-C07C
  path="/$(echo "$key" | sed 's/_/\//g')"                 # /tmp/mut/chk-C07C (underscores in names are ambiguous: test both)
  alt="/$(echo "$key" | sed 's/_/\//')"                   # /tmp/mut_chk-C07C
  if [ ! -d "$path" ] && [ ! -d "$alt" ] && [ ! -d "/tmp/${key#tmp_}" ]; then rm -f "$f"; fi
done
for d in instr.d/* mods/*; do
  [ -d "$d" ] || continue
  # keyed by md5 of the checkout path: keep those whose overlay still points at an existing checkout
  ov="instr.d/$(basename "$d")/overlay.json"
  if [ -f "$ov" ]; then
    repo=$(python3 - "$ov" <<'PY'
import json,sys
o=json.load(open(sys.argv[1]))["Replace"]
for k in o:
    if k.endswith("/storage/pebble/storage.go"): print(k[:-len("/storage/pebble/storage.go")]); break
PY
)
    [ -n "$repo" ] && [ ! -d "$repo" ] && rm -rf "instr.d/$(basename "$d")" "mods/$(basename "$d")"
  fi
done
exit 0
