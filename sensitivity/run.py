#!/usr/bin/env python3
"""Sensitivity self-test: apply each scripted mutation to a scratch worktree of /repo and require that
the quick check of the named properties raises a VIOLATION (and nothing else goes wrong).
usage: run.py [ids...]      (needs /repo; creates and removes worktrees under /tmp/verif-sens)"""
import subprocess,sys,os,shutil,concurrent.futures as cf
V='/verif'
def sh(cmd,**kw): return subprocess.run(cmd,shell=True,capture_output=True,text=True,**kw)
def parse():
    out=[]
    for l in open(V+'/sensitivity/mutants.txt'):
        if l.startswith('#') or not l.strip(): continue
        mid,props,f,rep=l.rstrip('\n').split('|',3)
        old,new=rep.split(' ==> ') if ' ==> ' in rep else (rep[:-5],'')
        if rep.endswith(' ==> '): old,new=rep[:-5],''
        out.append((mid,props.split(),f,old.encode().decode('unicode_escape'),new.encode().decode('unicode_escape')))
    return out
def one(m):
    mid,props,f,old,new=m
    wt='/tmp/verif-sens/'+mid
    sh('git -C /repo worktree remove --force %s'%wt); shutil.rmtree(wt,ignore_errors=True)
    r=sh('git -C /repo worktree add -q %s HEAD'%wt)
    if r.returncode: return mid,'worktree failed: '+r.stderr
    try:
        p=os.path.join(wt,f); s=open(p).read()
        if s.count(old)!=1: return mid,'MUTATION DOES NOT APPLY (count=%d)'%s.count(old)
        open(p,'w').write(s.replace(old,new))
        b=sh('cd %s && go build ./... 2>&1 | tail -3'%wt)
        if b.stdout.strip(): return mid,'does not compile: '+b.stdout.strip()[:200]
        res=[]
        for pr in props:
            r=sh('cd %s && VERIF_REPO=%s VERIF_WORKERS=%s ./check.sh %s quick'%(V,wt,os.environ.get('SENS_WORKERS','4'),pr))
            v=[l for l in r.stdout.splitlines() if l.startswith('violation:')]
            res.append('%s exit=%d %s'%(pr,r.returncode,(v[0][:160] if v else '')))
        return mid,' ; '.join(res)
    finally:
        sh('git -C /repo worktree remove --force %s'%wt); shutil.rmtree(wt,ignore_errors=True)
        sh('rm -rf %s/.build/alt/tmp_verif-sens_%s %s/.build/bin/*tmp_verif-sens_%s.test %s/.build/mods/* %s/.build/instr.d/*'%(V,mid,V,mid,V,V)) if False else None
ms=[m for m in parse() if not sys.argv[1:] or m[0] in sys.argv[1:]]
os.makedirs('/tmp/verif-sens',exist_ok=True)
bad=0
with cf.ThreadPoolExecutor(max_workers=int(os.environ.get('SENS_PAR','3'))) as ex:
    for mid,res in ex.map(one,ms):
        caught=all(('exit=1' in part) for part in res.split(' ; ')) if 'exit=' in res else False
        print(('CAUGHT ' if caught else 'MISSED ')+mid+': '+res,flush=True)
        bad+=0 if caught else 1
sh('rm -rf /tmp/verif-sens; git -C /repo worktree prune; /verif/clean_alt.sh')
sys.exit(1 if bad else 0)
