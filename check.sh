#!/bin/bash
# check.sh <PROP> [quick|thorough] : entry point registered in MANIFEST.json
cd "$(dirname "$0")"
V=$(pwd)
. "$V/env.sh"
export VERIF_DIR="$V"
if [ ! -x "$V/.build/vdrv" ] || [ "$V/driver/main.go" -nt "$V/.build/vdrv" ]; then
  mkdir -p "$V/.build"
  (cd "$V/driver" && CGO_ENABLED=0 $GO build -o "$V/.build/vdrv" .) || { echo "check: driver build failed" >&2; exit 2; }
fi
exec "$V/.build/vdrv" check "$@"
