#!/usr/bin/env python3
"""addprop.py <file.json>: merge {"id":..,"props":{..},"meta":{..},"engine":{..}?} into props.json / manifest_meta.json"""
import json,sys
d=json.load(open(sys.argv[1]))
props=json.load(open('/verif/props.json')); meta=json.load(open('/verif/manifest_meta.json'))
props[d['id']]=d['props']; meta['checks'][d['id']]=d['meta']
if 'engine' in d:
    names=[e['name'] for e in meta['engines']]
    if d['engine']['name'] in names: meta['engines'][names.index(d['engine']['name'])]=d['engine']
    else: meta['engines'].append(d['engine'])
json.dump(props,open('/verif/props.json','w'),indent=1); json.dump(meta,open('/verif/manifest_meta.json','w'),indent=1)
