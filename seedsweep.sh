#!/bin/bash
# seedsweep.sh <seed>... : run every quick check with other base seeds against a scratch checkout of
# /repo HEAD (so that evidence files and /repo are left alone); prints one line per check
cd /verif
WT=/tmp/verif-sweep-wt
git -C /repo worktree remove --force $WT 2>/dev/null; rm -rf $WT
git -C /repo worktree add -q $WT HEAD || exit 2
# frozen copy of the simulator sources: edits made while the sweep runs do not reach it
export VERIF_SIMSRC=/tmp/verif-sweep-sim
rm -rf $VERIF_SIMSRC; cp -r sim $VERIF_SIMSRC
for s in "$@"; do
  for p in $(python3 -c "import json; print(' '.join(c['property_id'] for c in json.load(open('/verif/MANIFEST.json'))['checks']))"); do
    out=$(VERIF_REPO=$WT VERIF_SEED=$s VERIF_WORKERS=${VERIF_WORKERS:-4} ./check.sh $p quick 2>&1)
    rc=$?
    echo "seed=$s $p exit=$rc $(echo "$out" | grep -E '^violation|TROUBLE' | head -2 | cut -c1-250 | tr '\n' ' ')"
  done
done
git -C /repo worktree remove --force $WT; rm -rf $WT $VERIF_SIMSRC
