#!/bin/bash
# replay.sh <replay file>
cd "$(dirname "$0")"
V=$(pwd)
. "$V/env.sh"
export VERIF_DIR="$V"
if [ ! -x "$V/.build/vdrv" ] || [ "$V/driver/main.go" -nt "$V/.build/vdrv" ]; then
  (cd "$V/driver" && CGO_ENABLED=0 $GO build -o "$V/.build/vdrv" .) || exit 2
fi
exec "$V/.build/vdrv" replay "$@"
