#!/bin/bash
# run one simulation: run1.sh <engine> <seed> [extra env...]
V="$(cd "$(dirname "$0")" && pwd)"
. "$V/env.sh"
export VERIF_DIR=${VERIF_DIR:-$V}
export GODEBUG=asyncpreemptoff=1,randautoseed=0 GOMAXPROCS=1
VERIF_ENGINE=$1 VERIF_SEED=$2 exec "$VERIF_DIR/.build/sim.test" -test.run '^TestSim$' -test.cpu 1 -test.timeout 10m
