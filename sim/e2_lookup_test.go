package sim

import (
	"bytes"
	"context"
	"errors"
	"fmt"
	"net"
	"sort"
	"testing/synctest"
	"time"

	"github.com/ethereum/go-ethereum/common/hexutil"
	"github.com/ethereum/go-ethereum/p2p/enode"
	"github.com/ethereum/go-ethereum/rlp"
	"github.com/zen-eth/shisui/portalwire"
)

// C10 — lookups terminate, ask each peer once, and return the closest nodes seen.

func init() {
	engines["lookup-node"] = runLookupNode
	engines["lookup-content"] = runLookupContent
}

const (
	lbHonest = iota
	lbSilent
	lbError
	lbDuplicates
	lbWithAsker
	lbCycle
	lbNils
	lbEmpty
	lbCount
)

func genLookupNode(r *prng) *plan {
	p := &plan{Cfg: map[string]int64{}}
	p.Cfg["npeers"] = int64([]int{0, 1, 2, 3, 5, 10, 25, 60, 120, 200}[r.intn(10)])
	p.Cfg["start"] = int64(r.intn(22))  // how many peers are in the table at the start (0 = empty table)
	p.Cfg["hostile"] = int64(r.intn(4)) // 0 all honest .. 3 mostly adversarial
	p.Cfg["cancel_ms"] = 0
	if r.chance(25) {
		p.Cfg["cancel_ms"] = int64(1 + r.intn(4000))
	}
	p.Cfg["maxdelay_ms"] = int64(1 + r.intn(900))
	if r.chance(6) {
		p.Cfg["precancel"] = 1
	}
	p.Cfg["fanout"] = int64(1 + r.intn(20))
	p.Ops = []opSpec{{K: "lookup", N: []int64{int64(r.u64() >> 1)}}}
	if r.chance(30) {
		p.Ops = append(p.Ops, opSpec{K: "lookup", N: []int64{int64(r.u64() >> 1)}})
	}
	return p
}

type lpeer struct {
	node  *enode.Node
	beh   int
	delay time.Duration
	knows []*enode.Node
}

type qlog struct {
	id         enode.ID
	start, end int // global event sequence numbers (0 = not finished)
	answer     []*enode.Node
}

func runLookupNode(seed uint64) {
	p := loadOrGenPlan("lookup-node", seed, genLookupNode)
	w := newWorld(seed, "C10", "lookup-node")
	w.wedgeIsViolation = true
	w.res.Class = "node-lookup"
	rs := newPrng(seed ^ 0x100c)
	var selfID enode.ID
	copy(selfID[:], rs.bytes(32))
	self := nullNode(selfID, net.IP{127, 0, 0, 1}, 30303, 1)
	np := int(p.cfg("npeers"))
	peers := map[enode.ID]*lpeer{}
	var order []*lpeer
	for i := 0; i < np; i++ {
		var id enode.ID
		copy(id[:], rs.bytes(32))
		n := nullNode(id, net.IP{127, 0, 0, 1}, 2000+i, 1)
		lp := &lpeer{node: n, delay: time.Duration(1+rs.intn(int(p.cfg("maxdelay_ms")))) * time.Millisecond}
		switch p.cfg("hostile") {
		case 0:
			lp.beh = lbHonest
		case 1:
			if rs.chance(25) {
				lp.beh = rs.intn(lbCount)
			}
		case 2:
			if rs.chance(60) {
				lp.beh = rs.intn(lbCount)
			}
		default:
			lp.beh = 1 + rs.intn(lbCount-1)
		}
		peers[id] = lp
		order = append(order, lp)
	}
	fan := int(p.cfg("fanout"))
	for _, lp := range order {
		for k := 0; k < fan && np > 1; k++ {
			lp.knows = append(lp.knows, order[rs.intn(np)].node)
		}
	}
	db, _ := enode.OpenDB("")
	tr := &portalwire.VerifTransport{
		SelfFn:       func() *enode.Node { return self },
		PingFn:       func(n *enode.Node) (uint64, error) { return n.Seq(), nil },
		RequestENRFn: func(n *enode.Node) (*enode.Node, error) { return nil, errors.New("none") },
	}
	tab, err := portalwire.VerifNewTable(tr, db, portalwire.Config{DisableInitCheck: true, PingInterval: time.Hour})
	if err != nil {
		fatal2("newtable: " + err.Error())
	}
	go tab.VerifLoop()
	synctest.Wait()
	nstart := int(p.cfg("start"))
	for i := 0; i < nstart && i < np; i++ {
		tab.VerifAddFound(order[i].node, true)
	}
	synctest.Wait()

	for li, op := range p.Ops {
		var target enode.ID
		copy(target[:], newPrng(uint64(op.n(0))).bytes(32))
		if newPrng(uint64(op.n(0))).chance(15) {
			target = selfID
		}
		// what the table holds at the start
		startSeen := map[enode.ID]*enode.Node{}
		buckets, _, _, _ := tab.VerifSnapshot()
		for _, b := range buckets {
			for _, e := range b.Entries {
				startSeen[e.Node.ID()] = e.Node
			}
		}
		var log []*qlog
		evseq := 0
		inflight, maxInflight := 0, 0
		query := func(n *enode.Node) ([]*enode.Node, error) {
			evseq++
			q := &qlog{id: n.ID(), start: evseq}
			log = append(log, q)
			inflight++
			if inflight > maxInflight {
				maxInflight = inflight
			}
			lp := peers[n.ID()]
			var out []*enode.Node
			var qerr error
			if lp == nil {
				time.Sleep(time.Millisecond)
				qerr = errors.New("unknown peer")
			} else {
				time.Sleep(lp.delay)
				switch lp.beh {
				case lbHonest:
					out = append(out, lp.knows...)
				case lbSilent:
					w.fault("peer_silent_timeout")
					time.Sleep(700 * time.Millisecond)
					qerr = errors.New("RPC timeout")
				case lbError:
					w.fault("peer_request_error")
					qerr = errors.New("boom")
				case lbDuplicates:
					out = append(append(append(out, lp.knows...), lp.knows...), lp.node)
				case lbWithAsker:
					out = append(append(out, self), lp.knows...)
				case lbCycle:
					out = append(out, lp.node, n)
					if len(lp.knows) > 0 {
						out = append(out, lp.knows[0])
					}
				case lbNils:
					// (no nil entries: the real query functions build their answers from decoded,
					// verified records, so a nil node cannot come from a peer) many records, far and near
					out = append(out, lp.knows...)
					for _, o := range order {
						if len(out) < 40 {
							out = append(out, o.node)
						}
					}
				case lbEmpty:
				}
			}
			inflight--
			evseq++
			q.end = evseq
			q.answer = out
			return out, qerr
		}
		ctx, cancel := context.WithCancel(context.Background())
		cancelled := false
		if p.cfg("precancel") == 1 {
			// cancelled before it starts: the first queries are spawned and the cancellation is seen at once
			cancelled = true
			w.fault("lookup_cancelled_before_start")
			cancel()
		}
		if ms := p.cfg("cancel_ms"); ms > 0 {
			go func() {
				time.Sleep(time.Duration(ms) * time.Millisecond)
				cancelled = true
				w.fault("lookup_cancelled_midway")
				cancel()
			}()
		}
		var result []*enode.Node
		t0 := w.now()
		bound := time.Duration(np+5)*(time.Duration(p.cfg("maxdelay_ms"))*time.Millisecond+time.Second) + 5*time.Second
		okc, _ := w.call("lookup", bound, func() error {
			result = portalwire.VerifRunLookup(ctx, tab, target, query)
			return nil
		})
		cancel()
		dur := w.now() - t0
		wasCancelled := p.cfg("precancel") == 1 || (cancelled && dur >= time.Duration(p.cfg("cancel_ms"))*time.Millisecond)
		w.op("lookup#%d peers=%d start=%d hostile=%d cancel=%dms -> %d results, %d queries, max %d in flight, %v virtual", li, np, len(startSeen), p.cfg("hostile"), p.cfg("cancel_ms"), len(result), len(log), maxInflight, dur.Round(time.Millisecond))
		w.abstract("lookup np=%d st=%d h=%d c=%v q=%d r=%d", np, len(startSeen), p.cfg("hostile"), wasCancelled, len(log), len(result))
		if !okc {
			w.violate("C10", "not-terminating", "node lookup over %d peers did not return within %v virtual", np, bound)
			continue
		}
		// asked once, never self, at most 3 in flight, at most one query per peer
		askedN := map[enode.ID]int{}
		for _, q := range log {
			askedN[q.id]++
			if q.id == selfID {
				w.violate("C10", "asked-self", "the lookup queried the local node")
			}
		}
		for id, n := range askedN {
			if n > 1 {
				w.violate("C10", "asked-twice", "peer %x was queried %d times in one lookup", id[:3], n)
			}
		}
		if maxInflight > 3 {
			w.violate("C10", "too-many-in-flight", "%d queries were in flight at the same time", maxInflight)
		}
		if maxInflight == 3 {
			w.probe("three_in_flight")
		}
		if len(log) > np+len(startSeen)+1 {
			w.violate("C10", "too-many-queries", "%d queries for %d peers", len(log), np)
		}
		// result: <= 16, distinct, sorted by XOR distance
		if len(result) > 16 {
			w.violate("C10", "result-too-long", "%d nodes returned", len(result))
		}
		dup := map[enode.ID]bool{}
		for i, n := range result {
			if n == nil {
				w.violate("C10", "nil-in-result", "nil node in the result")
				continue
			}
			if dup[n.ID()] {
				w.violate("C10", "duplicate-in-result", "node %x appears twice in the result", n.ID().Bytes()[:3])
			}
			dup[n.ID()] = true
			if i > 0 && result[i-1] != nil && enode.DistCmp(target, result[i-1].ID(), n.ID()) > 0 {
				w.violate("C10", "result-unsorted", "result not sorted by distance to the target at position %d", i)
			}
		}
		// everything seen: table at the start plus every answer of a finished query
		seen := map[enode.ID]bool{}
		for id := range startSeen {
			seen[id] = true
		}
		allDone := true
		for _, q := range log {
			if q.end == 0 {
				allDone = false
				continue
			}
			for _, n := range q.answer {
				if n != nil {
					seen[n.ID()] = true
				}
			}
		}
		for _, n := range result {
			if n != nil && !seen[n.ID()] {
				w.violate("C10", "unseen-in-result", "node %x in the result was never seen", n.ID().Bytes()[:3])
			}
		}
		if !wasCancelled && allDone {
			// no closer seen node omitted: the result is exactly the 16 closest of everything seen
			var all []enode.ID
			for id := range seen {
				all = append(all, id)
			}
			sort.Slice(all, func(i, j int) bool { return enode.DistCmp(target, all[i], all[j]) < 0 })
			if len(all) > 16 {
				all = all[:16]
			}
			if len(all) != len(result) {
				w.violate("C10", "closer-node-omitted", "%d nodes seen, the 16 closest are %d, the result has %d", len(seen), len(all), len(result))
			} else {
				for i := range all {
					if result[i] != nil && result[i].ID() != all[i] {
						w.violate("C10", "closer-node-omitted", "position %d of the result is %x, but seen node %x is closer to the target", i, result[i].ID().Bytes()[:3], all[i][:3])
						break
					}
				}
			}
			w.probe("complete_lookup_checked")
			// termination after at most one query per peer also means: every seen, askable node among
			// the final closest set was asked (the lookup ends only when nobody is left to ask)
		} else {
			w.probe("cancelled_lookup")
		}
		synctest.Wait()
	}
	tab.VerifClose()
	w.res.Nontrivial = true
	w.finish()
}

// ---------- content lookup over real nodes and puppets ----------

func genLookupContent(r *prng) *plan {
	p := &plan{Cfg: map[string]int64{}}
	p.Cfg["np"] = int64(1 + r.intn(10))
	p.Cfg["holders"] = int64(r.intn(4))
	p.Cfg["maxdelay_ms"] = int64(1 + r.intn(500))
	p.Cfg["vv"] = int64(r.intn(3))
	p.Cfg["big"] = int64(r.intn(3) / 2)
	p.Ops = []opSpec{{K: "lookup", N: []int64{int64(r.u64() >> 1)}}}
	if r.chance(25) {
		// more answering peers than a lookup result holds (16): closer nodes learned later push
		// already-asked ones out, so well over 16 peers answer in one lookup
		p.Cfg["np"] = int64(17 + r.intn(24))
		// half of them as a chain: the asker starts from the farthest peers, every peer names the next
		// closer ones, only the closest may hold the content - (nearly) every peer answers
		p.Cfg["chain"] = int64(r.intn(2))
	}
	return p
}

func runLookupContent(seed uint64) {
	p := loadOrGenPlan("lookup-content", seed, genLookupContent)
	w := newWorld(seed, "C10", "lookup-content")
	w.wedgeIsViolation = true
	w.res.Class = "content-lookup"
	vv := versionSets[p.cfg("vv")%3]
	rs := newPrng(seed ^ 0xc10c)
	V := w.newBase(nodeCfg{name: "V", port: 9001, key: detKey(seed, 1), versions: vv, maxUtp: 20, capacityMB: 10})
	vp := V.newPlainProto(portalwire.History)
	np := int(p.cfg("np"))
	key := append([]byte{0x01}, rs.bytes(32)...)
	type cpeer struct {
		*contentPeer
		holds    []byte
		beh      int
		requests int
	}
	var pups []*cpeer
	inflight, maxInflight := 0, 0
	for i := 0; i < np; i++ {
		cp := &cpeer{contentPeer: w.newContentPeer(nodeCfg{name: fmt.Sprintf("P%d", i), port: 9100 + i, key: detKey(seed, 10+i), versions: vv, maxUtp: 20}, vv)}
		pups = append(pups, cp)
	}
	nh := int(p.cfg("holders"))
	chain := p.cfg("chain") == 1
	var cid enode.ID
	copy(cid[:], vp.p.ToContentId(key))
	if chain {
		// index 0 = closest to the content id
		sort.Slice(pups, func(a, b int) bool { return enode.DistCmp(cid, pups[a].id(), pups[b].id()) < 0 })
		if nh > 1 {
			nh = 1
		}
	}
	for i, cp := range pups {
		cp := cp
		i := i
		if i < nh {
			size := 40 + rs.intn(600)
			if p.cfg("big") == 1 {
				size = 2000 + rs.intn(8000)
			}
			cp.holds = append([]byte(fmt.Sprintf("content-from-P%d-", i)), rs.bytes(size)...)
		} else if !chain {
			cp.beh = rs.intn(5)
		}
		delay := time.Duration(1+rs.intn(int(p.cfg("maxdelay_ms")))) * time.Millisecond
		others := func() [][]byte {
			var out [][]byte
			if chain {
				for k := 1; k <= 3 && i-k >= 0; k++ {
					rec, _ := rlp.EncodeToBytes(pups[i-k].self().Record())
					out = append(out, rec)
				}
				return out
			}
			for k := 0; k < 3 && np > 0; k++ {
				o := pups[rs.intn(np)]
				rec, _ := rlp.EncodeToBytes(o.self().Record())
				out = append(out, rec)
			}
			return out
		}
		inner := cp.handlers[string(portalwire.History)]
		cp.handlers[string(portalwire.History)] = func(from *enode.Node, addr *net.UDPAddr, msg []byte) []byte {
			if len(msg) == 0 || msg[0] != portalwire.FINDCONTENT {
				return inner(from, addr, msg)
			}
			cp.requests++
			inflight++
			if inflight > maxInflight {
				maxInflight = inflight
			}
			// counted as in flight only while the asker certainly still waits (its request times out
			// after 700 ms; delay is below 500 ms)
			time.Sleep(delay)
			inflight--
			if cp.holds != nil {
				return cp.serve(from, addr, cp.holds, vv)
			}
			switch cp.beh {
			case 0: // ENRs of other peers
				return append([]byte{portalwire.CONTENT, portalwire.ContentEnrsSelector}, sszLists(others())...)
			case 1: // ENRs incl. itself and the asker
				me, _ := rlp.EncodeToBytes(cp.self().Record())
				asker, _ := rlp.EncodeToBytes(from.Record())
				return append([]byte{portalwire.CONTENT, portalwire.ContentEnrsSelector}, sszLists(append(others(), me, asker))...)
			case 2: // silent
				w.fault("peer_silent_timeout")
				time.Sleep(2 * time.Second)
				return nil
			case 3: // empty ENR list
				return []byte{portalwire.CONTENT, portalwire.ContentEnrsSelector}
			}
			w.fault("peer_garbage_answer")
			return []byte{portalwire.CONTENT, 0x07} // garbage selector
		}
	}
	// V knows a few of them at the start
	known := 1 + rs.intn(np)
	for i := 0; i < known; i++ {
		if chain {
			if i < 16 {
				vp.p.AddEnr(pups[np-1-i].self()) // the farthest ones
			}
			continue
		}
		vp.p.AddEnr(pups[rs.intn(np)].self())
	}
	w.runFor(30 * time.Millisecond)
	var got []byte
	var lerr error
	okc, _ := w.call("content-lookup", 120*time.Second, func() error {
		got, _, lerr = vp.p.ContentLookup(key, vp.p.ToContentId(key))
		return nil
	})
	if !okc {
		w.violate("C10", "not-terminating", "content lookup over %d peers did not return within 120 virtual seconds", np)
		w.finish()
	}
	supplied := 0
	match := false
	for _, cp := range pups {
		if cp.requests > 1 {
			w.violate("C10", "asked-twice", "%s was asked %d times for the same content in one lookup", cp.cfg.name, cp.requests)
		}
		if cp.holds != nil && cp.requests > 0 {
			supplied++
			if bytes.Equal(got, cp.holds) {
				match = true
			}
		}
	}
	if maxInflight > 3 {
		w.violate("C10", "too-many-in-flight", "%d content queries were being served at the same time", maxInflight)
	}
	asked := 0
	for _, cp := range pups {
		if cp.requests > 0 {
			asked++
		}
	}
	if asked > 16 {
		w.probe("content_lookup_more_than_16_asked")
	}
	w.op("content lookup: %d peers (chain=%v), %d holders, %d known at start, %d asked -> %d bytes err=%v; %d queried holders supplied content, max %d in flight", np, chain, nh, known, asked, len(got), lerr, supplied, maxInflight)
	w.abstract("content np=%d nh=%d sup=%d err=%v", np, nh, supplied, lerr != nil)
	switch {
	case supplied > 0 && lerr != nil:
		w.violate("C10", "content-not-returned", "%d queried peers supplied the content, the lookup returned %v", supplied, lerr)
	case supplied > 0 && !match:
		w.violate("C10", "wrong-content", "the lookup returned %d bytes that no queried peer supplied (%s..)", len(got), hexutil.Encode(head(got, 12)))
	case supplied == 0 && lerr == nil:
		w.violate("C10", "content-from-nowhere", "no queried peer supplied content, yet the lookup returned %d bytes", len(got))
	}
	if supplied > 0 {
		w.probe("content_found")
	} else {
		w.probe("content_not_found")
	}
	// all workers gone: no further request arrives later
	before := 0
	for _, cp := range pups {
		before += cp.requests
	}
	w.runFor(10 * time.Second)
	after := 0
	for _, cp := range pups {
		after += cp.requests
	}
	if after != before {
		w.violate("C10", "workers-left-behind", "%d content queries were sent after the lookup had returned", after-before)
	}
	w.res.Nontrivial = true
	w.finish()
}
