package sim

import (
	"encoding/hex"
	"os"
	"path/filepath"
	"regexp"
	"sort"
	"strings"
)

// vector is a genuine (content key, content value) pair from the repository's test data.
type vector struct {
	Net  string // history | state | beacon
	Key  []byte
	Val  []byte
	Kind string // offer | retrieval | "" (same encoding for both)
	Src  string
}

var reKV = regexp.MustCompile(`(content_key|content_value\w*|value)["']?\s*:\s*["']?0x([0-9a-fA-F]*)`)

func loadVectorFile(path, net string) []vector {
	b, err := os.ReadFile(path)
	if err != nil {
		return nil
	}
	var out []vector
	var key []byte
	for _, m := range reKV.FindAllStringSubmatch(string(b), -1) {
		v, err := hex.DecodeString(m[2])
		if err != nil {
			continue
		}
		if m[1] == "content_key" {
			key = v
			continue
		}
		if key == nil {
			continue
		}
		kind := ""
		if strings.HasSuffix(m[1], "_offer") {
			kind = "offer"
		} else if strings.HasSuffix(m[1], "_retrieval") {
			kind = "retrieval"
		}
		out = append(out, vector{Net: net, Key: key, Val: v, Kind: kind, Src: filepath.Base(path)})
	}
	return out
}

var vectorCache []vector

// loadVectors reads every vector file of the repository's working tree (deterministic order).
func loadVectors() []vector {
	if vectorCache != nil {
		return vectorCache
	}
	files := []struct{ glob, net string }{
		{repoRoot() + "/history/testdata/test_data_collection_of_forks_blocks.yaml", "history"},
		{repoRoot() + "/history/testdata/validation/*.yaml", "history"},
		{repoRoot() + "/validation/testdata/header_with_proofs.json", "history"},
		{repoRoot() + "/state/testdata/*.yaml", "state"},
		{repoRoot() + "/beacon/testdata/types/*", "beacon"},
	}
	var out []vector
	for _, f := range files {
		ms, _ := filepath.Glob(f.glob)
		sort.Strings(ms)
		for _, m := range ms {
			out = append(out, loadVectorFile(m, f.net)...)
		}
	}
	vectorCache = out
	return out
}

// repoRoot is the checkout whose test data is read: /repo unless VERIF_REPO says otherwise.
func repoRoot() string {
	if r := os.Getenv("VERIF_REPO"); r != "" {
		return r
	}
	return "/repo"
}
