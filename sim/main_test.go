package sim

import (
	"os"
	"testing"
)

// TestSim is the single entry point of the runner binary: one run per OS process.
//
//	VERIF_ENGINE  engine/scenario name
//	VERIF_SEED    the one integer that decides everything
//	VERIF_OUT     result file (JSON)
func TestSim(t *testing.T) {
	engine := os.Getenv("VERIF_ENGINE")
	if engine == "" {
		t.Skip("VERIF_ENGINE not set")
	}
	seed := uint64(envInt("VERIF_SEED", 1))
	fn, ok := engines[engine]
	if !ok {
		fatal2("unknown engine " + engine)
	}
	quietLogs()
	runBubble(t, seed, func() { fn(seed) })
}

var engines = map[string]func(seed uint64){}
