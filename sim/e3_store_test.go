package sim

import (
	"bytes"
	"encoding/binary"
	"encoding/hex"
	"errors"
	"fmt"
	"math/big"
	"os"
	"reflect"
	"runtime"
	"sort"
	"strings"
	"sync"
	"testing/synctest"
	"time"
	"unsafe"

	"github.com/cockroachdb/pebble"
	"github.com/ethereum/go-ethereum/p2p/enode"
	"github.com/holiman/uint256"
	"github.com/zen-eth/shisui/storage"
	spebble "github.com/zen-eth/shisui/storage/pebble"
)

//go:linkname verifGoid runtime.verifGoid
func verifGoid() uint64

// E3 simstore: storage/pebble.ContentStorage over the simulated disk.
// Classes: seq (sequential histories), par (concurrent puts under a seeded yield
// scheduler), crash (crash image after an arbitrary FS operation, restart, continue).

func init() {
	engines["store-seq"] = func(seed uint64) { runStore(seed, "store-seq", "seq") }
	engines["store-par"] = func(seed uint64) { runStore(seed, "store-par", "par") }
	engines["store-crash"] = func(seed uint64) { runStore(seed, "store-crash", "crash") }
}

const storeCapMB = 1
const storeCap = storeCapMB * 1000_000

var crashModes = []string{crashDropUnsynced, crashKeepAll, crashTorn, crashLostDirents}

func genStorePlan(class string) func(r *prng) *plan {
	return func(r *prng) *plan {
		p := &plan{Class: class, Cfg: map[string]int64{}}
		p.Cfg["node"] = int64(r.intn(4))                // node id flavour
		p.Cfg["memtable"] = int64(16+r.intn(240)) << 10 // 16..256 KiB: flushes within tens of ops
		p.Cfg["cache"] = int64(8+r.intn(56)) << 10
		p.Cfg["big"] = 0
		if r.chance(25) {
			p.Cfg["big"] = 1 // items above 5% of capacity allowed
		}
		p.Cfg["sched"] = int64(r.u64() >> 1)
		if class == "crash" && r.chance(50) {
			p.Cfg["preempt"] = int64([]int{1, 2, 5, 20}[r.intn(4)])
		}
		nids := 6 + r.intn(40)
		p.Cfg["nids"] = int64(nids)
		p.Cfg["idflavour"] = int64(r.intn(3))
		nops := 20 + r.intn(100)
		size := func() int64 {
			switch r.intn(10) {
			case 0:
				return 0
			case 1:
				return int64(r.intn(64))
			case 2, 3, 4:
				return int64(30_000 + r.intn(20_000)) // near the 5% mark (50 000 incl. key)
			default:
				if p.Cfg["big"] == 1 && r.chance(15) {
					return int64(50_000 + r.intn(1_100_000))
				}
				return int64(r.intn(49_000))
			}
		}
		if r.chance(6) {
			// the first put is larger than the whole capacity: the pruning pass it triggers has to drop
			// everything the store holds, with the usage figure still exact
			p.Cfg["big"] = 1
			p.Ops = append(p.Ops, opSpec{K: "put", N: []int64{int64(r.intn(nids)), int64(1_000_000 + r.intn(200_000)), int64(r.u64() >> 1)}})
		}
		for i := 0; i < nops; i++ {
			switch {
			case class == "par" && r.chance(25):
				n := 2 + r.intn(5)
				if r.chance(8) {
					n = 20 + r.intn(81) // as many at once as the validation pool has workers (100)
				}
				p.Ops = append(p.Ops, opSpec{K: "par", N: []int64{int64(n)}})
				for j := 0; j < n; j++ {
					if r.chance(25) {
						// a reader racing the writers (and their prunes)
						p.Ops = append(p.Ops, opSpec{K: "pget", N: []int64{int64(r.intn(nids))}})
						continue
					}
					p.Ops = append(p.Ops, opSpec{K: "put", N: []int64{int64(r.intn(nids)), size(), int64(r.u64() >> 1)}})
				}
			case class == "crash" && r.chance(8):
				p.Ops = append(p.Ops, opSpec{K: "crash", N: []int64{int64(r.intn(len(crashModes))), int64(1 + r.intn(40)), int64(r.u64() >> 1)}})
			case class == "crash" && r.chance(4):
				// clean restart during which one read of a table file fails (the k-th), then a put
				p.Ops = append(p.Ops, opSpec{K: "faultyreopen", N: []int64{int64(1 + r.intn(5)), int64(r.intn(nids)), size(), int64(r.u64() >> 1)}})
			case r.chance(4):
				p.Ops = append(p.Ops, opSpec{K: "reopen"})
			case r.chance(25):
				p.Ops = append(p.Ops, opSpec{K: "get", N: []int64{int64(r.intn(nids))}})
			default:
				p.Ops = append(p.Ops, opSpec{K: "put", N: []int64{int64(r.intn(nids)), size(), int64(r.u64() >> 1)}})
			}
		}
		if class == "crash" {
			// always end with a crash so every run has at least one
			p.Ops = append(p.Ops, opSpec{K: "crash", N: []int64{int64(r.intn(len(crashModes))), int64(1 + r.intn(10)), int64(r.u64() >> 1)}},
				opSpec{K: "put", N: []int64{int64(r.intn(nids)), size(), int64(r.u64() >> 1)}},
				opSpec{K: "put", N: []int64{int64(r.intn(nids)), size(), int64(r.u64() >> 1)}},
				opSpec{K: "get", N: []int64{int64(r.intn(nids))}})
		}
		return p
	}
}

type retained struct {
	op    int
	id    [32]byte
	slice []byte
	copy  []byte
}

type storeSim struct {
	// C04 "a refused put changes nothing observable", seen through the usage figure: the figure the store keeps
	// after the last accepted put (or open), the refused puts since, and whether this run has shown that an
	// accepted put without pruning adds exactly its own size (calibration; never judged otherwise)
	usageAtAccept           uint64
	refusedSince            int
	refusedBytes            int
	linearSeen, linearBroke int
	usageKnown              bool
	// seeded preemption of the goroutine inside Put (crash classes): the database's own goroutines (WAL flusher,
	// flush, compaction) then run between the store's writes as they do on a machine with more than one core,
	// so that two records written one after the other reach the file system in separate operations
	preempt, preempts uint64
	w                 *world
	p                 *plan
	disk              *simDisk
	db                *pebble.DB
	st                storage.ContentStorage
	cs                *spebble.ContentStorage
	nodeID            enode.ID
	ids               [][32]byte
	model             map[[32]byte][]byte   // what a get must return now
	ever              map[[32]byte][][]byte // every value ever put under the id
	maxItem           int                   // largest key+value accepted so far
	held              []retained
	lastRadius        *uint256.Int
	opIdx             int
	// yield scheduler
	tasks             map[uint64]*ytask
	crashMode         string
	readFaultSurvived bool
	persistedAtOpen   uint64
	locks             []lockProbe
	crashSeed         uint64
	lastCrash         string
	yieldOn           bool
	lastTasks         []*ytask // tasks of the last runTasks call, with their invoke / return stamps
}

type ytask struct {
	name   string
	resume chan struct{}
	parked bool
	site   string
	done   bool
	err    error
	// scheduler steps at which the task was first resumed and at which it was first seen finished: the
	// invoke / return stamps of the recorded history (one task runs between two observations, so the
	// order of returns is exact)
	callStep, retStep int
	waitsFor          *lockProbe // the mutex the task takes with its next statement (nil: none)
	stalledUntil      time.Time  // ysched.drain: not resumed before this (virtual) instant
}

func beDist(id [32]byte, node enode.ID) *big.Int {
	var x [32]byte
	for i := range x {
		x[i] = id[i] ^ node[i]
	}
	return new(big.Int).SetBytes(x[:])
}

func distBytes(id [32]byte, node enode.ID) [32]byte {
	var x [32]byte
	for i := range x {
		x[i] = id[i] ^ node[i]
	}
	return x
}

func reversed(b [32]byte) [32]byte {
	var r [32]byte
	for i := range b {
		r[i] = b[31-i]
	}
	return r
}

func valueFor(seed int64, size int64) []byte {
	// unique per put: 8-byte tag then a cheap deterministic stream
	b := make([]byte, size)
	x := uint64(seed)*0x9e3779b97f4a7c15 + 1
	for i := range b {
		if i < 8 {
			b[i] = byte(uint64(seed) >> (8 * (7 - i)))
			continue
		}
		x ^= x << 13
		x ^= x >> 7
		x ^= x << 17
		b[i] = byte(x)
	}
	return b
}

func runStore(seed uint64, engine, class string) {
	p := loadOrGenPlan(engine, seed, genStorePlan(class))
	w := newWorld(seed, "C04", engine)
	w.res.Class = class
	s := &storeSim{w: w, p: p, model: map[[32]byte][]byte{}, ever: map[[32]byte][][]byte{}, tasks: map[uint64]*ytask{}}
	r := newPrng(seed ^ 0x5151)
	s.preempt = uint64(p.cfg("preempt"))
	// node id flavours
	switch p.cfg("node") {
	case 0:
		copy(s.nodeID[:], r.bytes(32))
	case 1: // all zero: key == content id
	case 2:
		for i := range s.nodeID {
			s.nodeID[i] = 0xff
		}
	default:
		copy(s.nodeID[:], r.bytes(32))
		s.nodeID[0] = 0x80
	}
	// id pool: distances chosen so that big- and little-endian orders disagree, ids
	// differing in one bit, shared prefixes, nodeId^1
	nids := int(p.cfg("nids"))
	for i := 0; i < nids; i++ {
		var d [32]byte
		switch p.cfg("idflavour") {
		case 0:
			copy(d[:], r.bytes(32))
		case 1:
			// sparse: one or two non-zero bytes at random positions
			d[r.intn(32)] = byte(1 + r.intn(255))
			if r.chance(50) {
				d[r.intn(32)] = byte(1 + r.intn(255))
			}
		default:
			copy(d[:], r.bytes(32))
			if i > 0 && r.chance(50) {
				// single-bit neighbour of an earlier distance
				prev := distBytes(s.ids[r.intn(i)], s.nodeID)
				d = prev
				d[r.intn(32)] ^= 1 << uint(r.intn(8))
			}
		}
		if i == 0 {
			d = [32]byte{}
			d[31] = 1 // nodeId ^ 1
		}
		if d == ([32]byte{}) {
			d[31] = 2 // the node id itself is excluded by the property
		}
		var id [32]byte
		for k := range id {
			id[k] = d[k] ^ s.nodeID[k]
		}
		s.ids = append(s.ids, id)
	}
	spebble.VerifYield = s.yield
	spebble.VerifYieldLockHook = s.yieldLock
	s.disk = newSimDisk()
	s.open(true)
	w.abstract("cfg node=%d idf=%d big=%d", p.cfg("node"), p.cfg("idflavour"), p.cfg("big"))

	ops := p.Ops
	for i := 0; i < len(ops); i++ {
		s.opIdx = i
		op := ops[i]
		switch op.K {
		case "put":
			s.doPut(op)
		case "get", "pget":
			s.doGet(op) // a pget outside a batch (minimised plan) is an ordinary get
		case "reopen":
			s.doReopen()
		case "faultyreopen":
			s.doFaultyReopen(op)
		case "par":
			n := int(op.n(0))
			var batch []opSpec
			for j := i + 1; j < len(ops) && len(batch) < n; j++ {
				if ops[j].K != "put" && ops[j].K != "pget" {
					break
				}
				batch = append(batch, ops[j])
			}
			i += len(batch)
			if len(batch) > 0 {
				s.doPar(batch)
			}
		case "crash":
			s.armCrash(op)
		}
		if s.disk.image != nil {
			s.doCrashRestart()
		}
		s.checkHeld()
	}
	if s.disk.crashAt != 0 && s.disk.image == nil {
		// crash point beyond the end of the history: crash now
		s.disk.mu.Lock()
		s.disk.image = s.disk.snapshot("end")
		s.disk.mu.Unlock()
		s.doCrashRestart()
	}
	s.checkHeld()
	for k, v := range s.disk.opKinds {
		w.res.Probes["fs_"+k] += v
	}
	w.res.Nontrivial = w.res.Probes["put_ok"] >= 3
	w.finish()
}

func (s *storeSim) open(first bool) bool { return s.openFault(0) }

// openFault opens the store; with readFault > 0 the readFault-th read of a table file that follows the
// opening of the database fails once (the database is opened, closed and opened again first, so that the
// write-ahead log is in table files and nothing is in the block cache). A start the store refuses because
// of that read is repeated without the fault, as a supervisor would.
func (s *storeSim) openFault(readFault int) bool {
	mkopts := func() *pebble.Options {
		opts := &pebble.Options{
			FS:                    s.disk,
			MemTableSize:          uint64(s.p.cfg("memtable")),
			Cache:                 pebble.NewCache(s.p.cfg("cache")),
			MaxOpenFiles:          16,
			Levels:                []pebble.LevelOptions{{TargetFileSize: 64 << 10, BlockSize: 1 << 10}},
			L0CompactionThreshold: 2,
		}
		opts.Experimental.ReadSamplingMultiplier = -1
		return opts
	}
	s.readFaultSurvived = false
	db, err := pebble.Open("/db", mkopts())
	if err != nil {
		s.w.violate("C17", "open-failed", "pebble.Open after %s: %v", s.lastCrash, err)
		return false
	}
	s.persistedAtOpen = 0
	if val, closer, gerr := db.Get(storage.SizeKey); gerr == nil {
		if len(val) == 8 {
			s.persistedAtOpen = binary.BigEndian.Uint64(val)
		}
		closer.Close()
	}
	if readFault > 0 {
		synctest.Wait()
		if err := db.Close(); err != nil {
			s.w.j.logf("close before the faulty open: %v", err)
		}
		synctest.Wait()
		if db, err = pebble.Open("/db", mkopts()); err != nil {
			s.w.violate("C17", "open-failed", "pebble.Open after a clean close: %v", err)
			return false
		}
		s.disk.mu.Lock()
		s.disk.readFailIn, s.disk.readFailed = readFault, 0
		s.disk.mu.Unlock()
	}
	st, err := spebble.NewStorage(storage.PortalStorageConfig{StorageCapacityMB: storeCapMB, NodeId: s.nodeID, NetworkName: "sim"}, db)
	if readFault > 0 {
		s.disk.mu.Lock()
		fired := s.disk.readFailed > 0
		s.disk.readFailIn = 0
		s.disk.mu.Unlock()
		switch {
		case !fired:
			s.w.probe("open_read_fault_not_reached")
		case err != nil:
			s.w.probe("open_read_fault_refused")
			s.w.res.Faults["read_error_at_open"]++
			s.w.op("start refused because of the failed read (%v); started again", err)
			synctest.Wait()
			db.Close()
			synctest.Wait()
			return s.openFault(0)
		default:
			s.w.probe("open_read_fault_survived")
			s.w.res.Faults["read_error_at_open"]++
			s.readFaultSurvived = true
		}
	}
	if err != nil {
		s.w.violate("C17", "open-failed", "NewStorage after %s: %v", s.lastCrash, err)
		db.Close()
		return false
	}
	s.db, s.st = db, st
	s.cs = st.(*spebble.ContentStorage)
	s.usageAtAccept, s.usageKnown = s.cs.VerifSize(), true
	s.refusedSince, s.refusedBytes = 0, 0
	s.locks = findLocks(s.cs)
	s.lastRadius = nil
	return true
}

// ---------- observation of the real database ----------

type dbView struct {
	items     map[[32]byte][]byte // id -> value
	real      uint64              // sum of len(key)+len(value)
	persisted uint64
	hasSize   bool
	farthest  *[32]byte // distance bytes of the farthest retained item
}

func (s *storeSim) scan() *dbView {
	v := &dbView{items: map[[32]byte][]byte{}}
	it, err := s.db.NewIter(nil)
	if err != nil {
		fatal2("scan: " + err.Error())
	}
	defer it.Close()
	for it.First(); it.Valid(); it.Next() {
		k := it.Key()
		if bytes.Equal(k, storage.SizeKey) {
			val := it.Value()
			if len(val) == 8 {
				v.persisted = binary.BigEndian.Uint64(val)
				v.hasSize = true
			}
			continue
		}
		var d, id [32]byte
		copy(d[:], k)
		for i := range id {
			id[i] = d[i] ^ s.nodeID[i]
		}
		v.items[id] = append([]byte(nil), it.Value()...)
		v.real += uint64(len(k)) + uint64(len(it.Value()))
		dd := d
		v.farthest = &dd
	}
	return v
}

func short(id [32]byte) string {
	return hex.EncodeToString(id[:4]) + ".." + hex.EncodeToString(id[30:])
}

func everContains(list [][]byte, v []byte) bool {
	for _, e := range list {
		if bytes.Equal(e, v) {
			return true
		}
	}
	return false
}

// afterOp validates the database against the model after a sequential operation.
// putID/putOK describe the operation when it was a put.
func (s *storeSim) afterOp(kind string, before *dbView, putID *[32]byte, putErr error, putLen int) {
	w := s.w
	v := s.scan()
	// C04: everything present was put under that id, and equals the model
	for id, val := range v.items {
		if !everContains(s.ever[id], val) {
			w.violate("C04", "value-not-put", "after %s#%d: id %s holds %d bytes never put under it", kind, s.opIdx, short(id), len(val))
			continue
		}
		if want, ok := s.model[id]; !ok {
			w.violate("C04", "resurrected", "after %s#%d: id %s present but the model dropped it earlier", kind, s.opIdx, short(id))
		} else if !bytes.Equal(want, val) {
			w.violate("C04", "stale-value", "after %s#%d: id %s holds an older value (%d bytes) than the last accepted put (%d bytes)", kind, s.opIdx, short(id), len(val), len(want))
		}
	}
	// items that disappeared
	var dropped, kept [][32]byte
	for id := range s.model {
		if _, ok := v.items[id]; ok {
			kept = append(kept, id)
		} else {
			dropped = append(dropped, id)
		}
	}
	if len(dropped) > 0 {
		w.probe("prune_seen")
		pruneLegal := (kind == "put" && putErr == nil) || (kind == "reopen" && s.persistedAtOpen > storeCap)
		if !pruneLegal {
			w.violate("C04", "vanished", "after %s#%d (no accepted put, store not over capacity at open): %d items vanished, e.g. %s", kind, s.opIdx, len(dropped), short(dropped[0]))
		} else {
			// C05 farthest-first: every dropped id at least as far as every kept id
			var minDropped, maxKept *big.Int
			var mdID, mkID [32]byte
			for _, id := range dropped {
				d := beDist(id, s.nodeID)
				if minDropped == nil || d.Cmp(minDropped) < 0 {
					minDropped, mdID = d, id
				}
			}
			for _, id := range kept {
				d := beDist(id, s.nodeID)
				if maxKept == nil || d.Cmp(maxKept) > 0 {
					maxKept, mkID = d, id
				}
			}
			if maxKept != nil && minDropped.Cmp(maxKept) < 0 {
				w.violate("C05", "prune-order", "%s#%d: dropped %s (dist %x) although farther %s (dist %x) was kept", kind, s.opIdx, short(mdID), distBytes(mdID, s.nodeID), short(mkID), distBytes(mkID, s.nodeID))
			}
		}
		for _, id := range dropped {
			delete(s.model, id)
		}
	}
	// C05 accounting and capacity
	if v.persisted < v.real {
		w.violate("C05", "persisted-under-report", "after %s#%d: persisted usage %d < bytes held %d", kind, s.opIdx, v.persisted, v.real)
	}
	if mem := s.cs.VerifSize(); mem < v.real {
		w.violate("C05", "memory-under-report", "after %s#%d: in-memory usage %d < bytes held %d", kind, s.opIdx, mem, v.real)
	}
	if kind == "put" && putErr == nil && before != nil {
		would := before.real + uint64(putLen)
		if old, ok := before.items[*putID]; ok {
			would -= uint64(32 + len(old))
		}
		if would > storeCap {
			w.probe("over_capacity_put")
			freed := int64(would) - int64(v.real)
			if freed < storeCap/20 && v.real != 0 {
				w.violate("C05", "prune-amount", "put#%d left %d bytes over capacity pending; freed only %d (< 5%% = %d) and %d bytes remain", s.opIdx, would, freed, storeCap/20, v.real)
			}
		}
		if s.maxItem <= storeCap/20 && v.real > storeCap {
			w.violate("C05", "over-capacity", "after put#%d: %d bytes held > capacity %d with all items <= 5%%", s.opIdx, v.real, storeCap)
		}
	}
	s.checkRadius(kind, v)
	w.abstract("%s n=%d drop=%d", kind, len(v.items), len(dropped))
}

// checkRadius: C06 storage part.
func (s *storeSim) checkRadius(kind string, v *dbView) {
	w := s.w
	rad := s.st.Radius()
	ssz, _ := rad.MarshalSSZ()
	if s.lastRadius != nil && rad.Cmp(s.lastRadius) > 0 {
		// signature of the byte-order defect: the new radius is the farthest retained key
		// decoded little-endian (pruning walks keys in big-endian order, the decode is LE)
		var rid [32]byte
		for i := range rid {
			rid[i] = ssz[i] ^ s.nodeID[i]
		}
		// (the item may have been dropped again by a later prune of the same batch that ran off the end
		// of the store without touching the radius: any id ever put counts)
		if _, isKey := s.ever[rid]; isKey {
			w.violate("C06", "radius-grew-byte-order", "radius grew from %s to %s: it is the distance %x of a stored item decoded little-endian", s.lastRadius.Hex(), rad.Hex(), ssz)
		} else {
			w.violate("C06", "radius-grew", "after %s#%d: radius grew from %s to %s", kind, s.opIdx, s.lastRadius.Hex(), rad.Hex())
			if os.Getenv("VERIF_DEBUG") != "" {
				for id := range v.items {
					d := distBytes(id, s.nodeID)
					fmt.Fprintf(os.Stderr, "retained dist %x\n", d[:])
				}
				fmt.Fprintf(os.Stderr, "radius ssz %x\n", ssz)
			}
		}
	}
	s.lastRadius = rad.Clone()
	if v.farthest != nil {
		far := new(uint256.Int).SetBytes(v.farthest[:])
		if far.Cmp(rad) > 0 {
			// byte-order defect: admission and radius read the key bytes little-endian, so an
			// item whose little-endian reading is within the radius is retained although its
			// (big-endian) distance is outside
			rv := reversed(*v.farthest)
			if new(uint256.Int).SetBytes(rv[:]).Cmp(rad) <= 0 {
				w.violate("C06", "radius-byte-order", "farthest retained distance %x is outside radius %s; it is inside only when the distance is read little-endian", v.farthest[:], rad.Hex())
			} else {
				w.violate("C06", "retained-outside-radius", "after %s#%d: farthest retained distance %x > radius %s", kind, s.opIdx, v.farthest[:], rad.Hex())
			}
		}
	}
	if !rad.Eq(storage.MaxDistance) {
		w.probe("radius_shrunk")
	}
}

func (s *storeSim) doPut(op opSpec) {
	w := s.w
	id := s.ids[int(op.n(0))%len(s.ids)]
	val := valueFor(op.n(2), op.n(1))
	before := s.scan()
	radBefore := s.st.Radius().Clone()
	s.ever[id] = append(s.ever[id], val)
	if s.preempt > 0 {
		verifPreemptMe(s.preempt, uint64(op.n(2))^0x9e37)
	}
	err := s.st.Put(nil, id[:], val)
	if s.preempt > 0 {
		s.preempts += verifPreemptMe(0, 0)
		w.res.Faults["preemption"] = int(s.preempts)
	}
	if fslog {
		println("PUT done", short(id), len(val))
	}
	w.op("put id=%s size=%d -> %v", short(id), len(val), err)
	switch {
	case err == nil:
		w.probe("put_ok")
		s.model[id] = val
		if 32+len(val) > s.maxItem {
			s.maxItem = 32 + len(val)
		}
		if mem := s.cs.VerifSize(); true {
			// an accepted put that does not take the figure over the capacity adds exactly its own size
			// to it; refused puts in between must not show in it
			if exp := s.usageAtAccept + uint64(32+len(val)); exp <= storeCap && s.usageKnown {
				switch {
				case mem == exp && s.refusedSince == 0:
					s.linearSeen++
				case mem != exp && s.refusedSince == 0:
					s.linearBroke++
				case mem != exp && s.linearSeen > 0 && s.linearBroke == 0:
					w.violate("C04", "refused-put-changed", "put#%d: the usage figure went from %d to %d for an accepted put of %d bytes; %d refused puts (%d bytes) lie in between and were not without effect", s.opIdx, s.usageAtAccept, mem, 32+len(val), s.refusedSince, s.refusedBytes)
				case mem == exp:
					w.probe("refused_puts_left_no_trace")
				}
			}
			s.usageAtAccept, s.usageKnown = mem, true
			s.refusedSince, s.refusedBytes = 0, 0
		}
	case errors.Is(err, storage.ErrInsufficientRadius):
		w.probe("put_refused")
		s.refusedSince++
		s.refusedBytes += 32 + len(val)
		// C06: refused only when distance is not below the radius
		d := distBytes(id, s.nodeID)
		dist := new(uint256.Int).SetBytes(d[:])
		if dist.Cmp(radBefore) < 0 {
			rv := reversed(d)
			if new(uint256.Int).SetBytes(rv[:]).Cmp(radBefore) >= 0 {
				w.violate("C06", "admission-byte-order", "put refused for insufficient radius although distance %x < radius %s (the comparison reads the distance little-endian)", d[:], radBefore.Hex())
			} else {
				w.violate("C06", "refused-inside-radius", "put#%d refused although distance %x < radius %s", s.opIdx, d[:], radBefore.Hex())
			}
		}
		// C04: a refused put changes nothing observable
		after := s.scan()
		if len(after.items) != len(before.items) || after.real != before.real {
			w.violate("C04", "refused-put-changed", "refused put#%d changed the store (%d -> %d items)", s.opIdx, len(before.items), len(after.items))
		}
	default:
		w.violate("C04", "put-error", "put#%d failed without any injected fault: %v", s.opIdx, err)
	}
	s.afterOp("put", before, &id, err, 32+len(val))
}

func (s *storeSim) doGet(op opSpec) {
	w := s.w
	id := s.ids[int(op.n(0))%len(s.ids)]
	got, err := s.st.Get(nil, id[:])
	want, ok := s.model[id]
	w.op("get id=%s -> %d bytes err=%v", short(id), len(got), err)
	switch {
	case err == nil:
		w.probe("get_hit")
		if !ok {
			if everContains(s.ever[id], got) {
				w.violate("C04", "resurrected", "get#%d returned a value for %s that was pruned or never accepted", s.opIdx, short(id))
			} else {
				w.violate("C04", "value-not-put", "get#%d returned bytes never put under %s", s.opIdx, short(id))
			}
		} else if !bytes.Equal(got, want) {
			if everContains(s.ever[id], got) {
				w.violate("C04", "stale-value", "get#%d returned an older value for %s", s.opIdx, short(id))
			} else {
				w.violate("C04", "value-not-put", "get#%d returned bytes never put under %s", s.opIdx, short(id))
			}
		}
		s.held = append(s.held, retained{op: s.opIdx, id: id, slice: got, copy: append([]byte(nil), got...)})
	case errors.Is(err, storage.ErrContentNotFound):
		w.probe("get_miss")
		if ok {
			w.violate("C04", "lost", "get#%d: not found, but %s was accepted and nothing pruned it", s.opIdx, short(id))
		}
	default:
		w.violate("C04", "get-error", "get#%d failed without any injected fault: %v", s.opIdx, err)
	}
	w.abstract("get hit=%v", err == nil)
}

// checkHeld: the bytes handed back stay unchanged whatever the store does afterwards.
func (s *storeSim) checkHeld() {
	for i := range s.held {
		h := &s.held[i]
		if h.slice != nil && !bytes.Equal(h.slice, h.copy) {
			s.w.violate("C04", "returned-bytes-changed", "bytes returned by get#%d for %s changed under the caller by op#%d (first byte now %#x)", h.op, short(h.id), s.opIdx, firstDiff(h.slice, h.copy))
			h.slice = nil
		}
	}
}

func firstDiff(a, b []byte) byte {
	for i := range a {
		if i < len(b) && a[i] != b[i] {
			return a[i]
		}
	}
	return 0
}

func (s *storeSim) closeDB() {
	// let background compactions started by prune finish before closing
	synctest.Wait()
	if err := s.st.Close(); err != nil {
		s.w.probe("close_error")
		s.w.j.logf("close: %v", err)
	}
	synctest.Wait()
}

func (s *storeSim) doReopen() {
	s.w.op("reopen")
	s.closeDB()
	s.checkHeld()
	if !s.open(false) {
		s.w.finish()
	}
	s.w.probe("reopen")
	s.afterOp("reopen", nil, nil, nil, 0)
}

// doFaultyReopen: clean restart in which one read of a table file fails while the store opens. The store may
// refuse to start (it is then started again) or start; if it started although the read failed, one more put
// must still leave a persisted usage figure that is not below the bytes present (C17).
func (s *storeSim) doFaultyReopen(op opSpec) {
	s.w.op("reopen with the %d-th table read failing", op.n(0))
	s.closeDB()
	s.checkHeld()
	if !s.openFault(int(op.n(0))) {
		s.w.finish()
	}
	survived := s.readFaultSurvived
	s.w.probe("faulty_reopen")
	s.afterOp("reopen", nil, nil, nil, 0) // a store found over capacity is pruned on open, as in any restart
	s.doPut(opSpec{K: "put", N: []int64{op.n(1), op.n(2), op.n(3)}})
	if v := s.scan(); v.hasSize && v.persisted < v.real {
		how := "refused or unaffected"
		if survived {
			how = "started in spite of it"
		}
		s.w.violate("C17", "read-fault-under-report", "op#%d: after a start with a failed table read (%s) and one put the persisted usage %d < bytes present %d", s.opIdx, how, v.persisted, v.real)
	}
}

// ---------- crash ----------

func (s *storeSim) armCrash(op opSpec) {
	if s.disk.crashAt != 0 {
		return
	}
	s.disk.mu.Lock()
	s.disk.crashAt = s.disk.ops + int(op.n(1))
	s.disk.mu.Unlock()
	s.crashMode = crashModes[int(op.n(0))%len(crashModes)]
	s.crashSeed = uint64(op.n(2))
	s.w.op("arm crash mode=%s at fs-op %d", s.crashMode, s.disk.crashAt)
}

func (s *storeSim) doCrashRestart() {
	w := s.w
	im := s.disk.image
	w.op("CRASH after fs-op %d (%s) mode=%s", im.atOp, im.opKind, s.crashMode)
	w.res.Faults["crash_"+s.crashMode]++
	w.res.Probes["crash_at_"+im.opKind]++
	s.lastCrash = fmt.Sprintf("crash(%s) after fs-op %d (%s)", s.crashMode, im.atOp, im.opKind)
	// the old process is gone: abandon its DB (its goroutines stay parked for ever)
	spebble.VerifYield = func(string) {}
	old := s.db
	_ = old
	s.disk = im.restore(s.crashMode, newPrng(s.crashSeed))
	// what the store held under each id before the crash stays legal; nothing else is
	preModel := s.model
	s.model = map[[32]byte][]byte{}
	// persisted figure as found on disk before NewStorage touches it
	if !s.open(false) {
		w.finish()
	}
	spebble.VerifYield = s.yield
	v := s.scan()
	for id, val := range v.items {
		if !everContains(s.ever[id], val) {
			w.violate("C17", "crash-value", "%s: id %s holds %d bytes that were never put under it", s.lastCrash, short(id), len(val))
		}
		s.model[id] = val
	}
	if fslog {
		println("RESTART", s.lastCrash, "persisted", v.persisted, "real", v.real, "items", len(v.items), "foundOnDisk", s.persistedAtOpen)
	}
	if v.persisted < v.real {
		w.violate("C17", "crash-under-report", "%s: persisted usage %d < bytes present %d", s.lastCrash, v.persisted, v.real)
	}
	if s.maxItem <= storeCap/20 && v.real > storeCap {
		w.violate("C17", "crash-over-capacity", "%s: %d bytes present > capacity after open", s.lastCrash, v.real)
	}
	// radius rule on open: fullness is judged by the usage figure found on disk
	rad := s.st.Radius()
	thr := uint64(float64(storeCap) * 0.95)
	switch {
	case s.persistedAtOpen > thr && v.farthest != nil:
		w.probe("open_above_95")
		far := new(uint256.Int).SetBytes(v.farthest[:])
		ssz, _ := rad.MarshalSSZ()
		if !rad.Eq(far) {
			if bytes.Equal(ssz, v.farthest[:]) {
				w.violate("C06", "radius-byte-order", "on open: radius %s is the farthest retained distance %x decoded little-endian, so that item is outside it", rad.Hex(), v.farthest[:])
			} else if !(s.persistedAtOpen > storeCap && rad.Eq(storage.MaxDistance)) {
				w.violate("C17", "crash-radius", "%s: usage on disk %d (>95%%) but radius %s is not the farthest retained distance %x", s.lastCrash, s.persistedAtOpen, rad.Hex(), v.farthest[:])
			}
		}
	case s.persistedAtOpen <= thr:
		if !rad.Eq(storage.MaxDistance) {
			w.violate("C17", "crash-radius", "%s: usage on disk %d <= 95%% but radius %s is not the maximum", s.lastCrash, s.persistedAtOpen, rad.Hex())
		}
	}
	if s.persistedAtOpen > storeCap {
		w.probe("open_over_capacity")
	}
	_ = preModel
	s.lastRadius = rad.Clone()
	// retained slices of the dead process are no longer meaningful
	s.held = nil
	w.abstract("crash %s %s n=%d", s.crashMode, im.opKind, len(v.items))
}

// ---------- concurrent puts under the seeded yield scheduler ----------

func (s *storeSim) yield(site string) {
	if !s.yieldOn {
		return
	}
	t := s.tasks[verifGoid()]
	if t == nil {
		return
	}
	// A waiter on sync.Mutex is not durably blocked, so nobody may ever block on a mutex of the store while
	// another task holds it parked. The instrumentation announces every Lock() statement (yieldLock): the
	// scheduler does not resume a task that is about to take a mutex somebody holds. With that a task may
	// park inside its critical section, and the lock-free readers (Get) interleave with it there.
	t.site = site
	t.parked = true
	<-t.resume
	t.parked = false
}

// yieldLock: the calling task's next statement takes mu.
func (s *storeSim) yieldLock(site string, mu any) {
	if !s.yieldOn {
		return
	}
	t := s.tasks[verifGoid()]
	if t == nil {
		return
	}
	switch m := mu.(type) {
	case *sync.Mutex:
		t.waitsFor = &lockProbe{mu: m}
	case *sync.RWMutex:
		t.waitsFor = &lockProbe{rw: m}
	}
	t.site = site
	t.parked = true
	<-t.resume
	t.parked = false
	t.waitsFor = nil
}

// runTasks runs the functions as tasks of the seeded yield scheduler: every task parks before its first
// statement and at every yield point of the instrumented store; the scheduler resumes one parked task at
// a time (mostly the same one, sometimes another) until all have returned.
func (s *storeSim) runTasks(sched *prng, fns []func()) (trace []byte, stuck bool) {
	var tasks []*ytask
	s.yieldOn = true
	for i, fn := range fns {
		t := &ytask{name: fmt.Sprintf("task%d", i), resume: make(chan struct{})}
		tasks = append(tasks, t)
		started := make(chan struct{})
		go func() {
			s.tasks[verifGoid()] = t
			close(started)
			// park before the first statement so that the scheduler decides who starts
			t.parked = true
			<-t.resume
			t.parked = false
			fn()
			t.done = true
		}()
		<-started
	}
	steps := 0
	stamp := 0
	s.lastTasks = tasks
	for {
		synctest.Wait()
		var runnable []int
		alldone := true
		for i, t := range tasks {
			if t.done && t.retStep == 0 {
				t.retStep = stamp
			}
			if !t.done {
				alldone = false
				if t.parked && (t.waitsFor == nil || !t.waitsFor.held()) {
					runnable = append(runnable, i)
				}
			}
		}
		if alldone {
			break
		}
		if len(runnable) == 0 {
			// tasks are blocked inside the database (commit pipeline, flush): let virtual time pass
			time.Sleep(time.Millisecond)
			steps++
			if steps > 200000 {
				stuck = true
				break
			}
			continue
		}
		// mostly continue the same task (long runs), sometimes switch: both patterns matter
		pick := runnable[sched.intn(len(runnable))]
		if len(trace) > 0 && sched.chance(60) {
			last := int(trace[len(trace)-1])
			for _, r := range runnable {
				if r == last {
					pick = r
				}
			}
		}
		if len(trace) < 4096 {
			trace = append(trace, byte(pick))
		}
		stamp++
		if tasks[pick].callStep == 0 {
			tasks[pick].callStep = stamp
		}
		stamp++
		tasks[pick].resume <- struct{}{}
		steps++
	}
	s.yieldOn = false
	for g := range s.tasks {
		delete(s.tasks, g)
	}
	return trace, stuck
}

func (s *storeSim) doPar(batch []opSpec) {
	w := s.w
	before := s.scan()
	sched := newPrng(uint64(s.p.cfg("sched")) + uint64(s.opIdx))
	type putRes struct {
		id    [32]byte
		val   []byte
		err   error
		isGet bool // a concurrent reader: val is what Get returned
	}
	res := make([]*putRes, len(batch))
	var fns []func()
	for i, op := range batch {
		id := s.ids[int(op.n(0))%len(s.ids)]
		pr := &putRes{id: id, isGet: op.K == "pget"}
		if !pr.isGet {
			pr.val = valueFor(op.n(2), op.n(1))
			s.ever[id] = append(s.ever[id], pr.val)
		}
		res[i] = pr
		fns = append(fns, func() {
			if pr.isGet {
				pr.val, pr.err = s.st.Get(nil, pr.id[:])
			} else {
				pr.err = s.st.Put(nil, pr.id[:], pr.val)
			}
		})
	}
	trace, stuck := s.runTasks(sched, fns)
	s.usageKnown = false // concurrent puts: the sequential usage bookkeeping of doPut starts afresh
	if stuck {
		w.violate("C05", "stuck", "concurrent puts did not finish")
	}
	switches := 0
	for i := 1; i < len(trace); i++ {
		if trace[i] != trace[i-1] {
			switches++
		}
	}
	w.res.Probes["par_batches"]++
	w.res.Probes["par_task_switches"] += switches
	w.op("par %d puts, %d scheduling steps, %d switches", len(batch), len(trace), switches)
	// quiescent: all puts returned
	v := s.scan()
	okPuts := 0
	allRes := res
	var gets []*putRes
	for _, pr := range res {
		if pr.isGet {
			gets = append(gets, pr)
		}
	}
	{
		// the puts are judged below on a list without the readers
		var puts []*putRes
		for _, pr := range res {
			if !pr.isGet {
				puts = append(puts, pr)
			}
		}
		res = puts
	}
	for _, pr := range res {
		if pr.err == nil {
			okPuts++
			w.probe("put_ok")
			if 32+len(pr.val) > s.maxItem {
				s.maxItem = 32 + len(pr.val)
			}
		} else if !errors.Is(pr.err, storage.ErrInsufficientRadius) {
			w.violate("C05", "par-put-error", "concurrent put failed: %v", pr.err)
		}
	}
	// concurrent readers: whatever a get returns while puts and prunes run is one complete value that
	// the id held before the batch or that a put of the batch wrote; "not found" needs the id to have
	// been absent before or a prune to have been possible (some put accepted); nothing else
	for _, g := range gets {
		prev, had := s.model[g.id]
		switch {
		case g.err == nil:
			w.probe("par_get_hit")
			legal := had && bytes.Equal(prev, g.val)
			for _, pr := range res {
				if pr.id == g.id && bytes.Equal(pr.val, g.val) {
					legal = true
				}
			}
			if !legal {
				if everContains(s.ever[g.id], g.val) {
					w.violate("C04", "stale-value", "a get racing the puts of par#%d returned for %s a value the id did not hold before the batch and no put of the batch wrote", s.opIdx, short(g.id))
				} else {
					w.violate("C04", "value-not-put", "a get racing the puts of par#%d returned bytes never put under %s (%d bytes)", s.opIdx, short(g.id), len(g.val))
				}
			}
			s.held = append(s.held, retained{op: s.opIdx, id: g.id, slice: g.val, copy: append([]byte(nil), g.val...)})
		case errors.Is(g.err, storage.ErrContentNotFound):
			w.probe("par_get_miss")
			if had && okPuts == 0 {
				w.violate("C04", "lost", "a get racing the puts of par#%d: %s not found although it was stored and no put was accepted (nothing could prune it)", s.opIdx, short(g.id))
			}
		default:
			w.violate("C04", "get-error", "a get racing the puts of par#%d failed without any injected fault: %v", s.opIdx, g.err)
		}
	}
	// values: each present value was put under that id; for ids touched by the batch it must be
	// one of the batch's accepted values or the previous value
	for id, val := range v.items {
		if !everContains(s.ever[id], val) {
			w.violate("C04", "value-not-put", "after concurrent puts: id %s holds bytes never put under it", short(id))
		}
	}
	newModel := map[[32]byte][]byte{}
	for id, val := range v.items {
		touched := false
		legal := false
		for _, pr := range res {
			if pr.id == id {
				touched = true
				if pr.err == nil && bytes.Equal(pr.val, val) {
					legal = true
				}
			}
		}
		if !touched {
			if want, ok := s.model[id]; !ok || !bytes.Equal(want, val) {
				w.violate("C04", "stale-value", "after concurrent puts: untouched id %s changed", short(id))
			}
		} else if !legal {
			if want, ok := s.model[id]; !(ok && bytes.Equal(want, val)) {
				w.violate("C04", "stale-value", "after concurrent puts: id %s holds a value that no put of this batch wrote", short(id))
			}
		}
		newModel[id] = val
	}
	// anything that vanished must be explainable by a prune, i.e. some put of the batch was accepted
	if okPuts == 0 {
		for id := range s.model {
			if _, ok := v.items[id]; !ok {
				w.violate("C04", "vanished", "item %s vanished although no put was accepted", short(id))
			}
		}
	}
	// the recorded history of the batch (invoke / return stamped with scheduler steps) against a per-id
	// register: see linearizableBatch
	{
		var hops []histOp
		ti := 0
		for _, pr := range allRes {
			t := s.lastTasks[ti]
			ti++
			h := histOp{client: ti, id: pr.id, isGet: pr.isGet, val: pr.val, call: t.callStep, ret: t.retStep}
			switch {
			case pr.err == nil:
				h.ok = true
			case errors.Is(pr.err, storage.ErrContentNotFound), errors.Is(pr.err, storage.ErrInsufficientRadius):
			default:
				continue // reported above
			}
			hops = append(hops, h)
		}
		var putBytes uint64
		for _, pr := range res {
			if pr.err == nil {
				putBytes += uint64(32 + len(pr.val))
			}
		}
		// a prune runs when the store's own usage figure (which counts overwrites twice and so can be
		// well above the bytes held) crosses the capacity; it also shows when an id is gone afterwards
		usageBefore := before.real
		if before.persisted > usageBefore {
			usageBefore = before.persisted
		}
		pruneable := usageBefore+putBytes > storeCap
		for id := range before.items {
			if _, ok := v.items[id]; !ok {
				pruneable = true
			}
		}
		for _, pr := range res {
			if _, ok := v.items[pr.id]; pr.err == nil && !ok {
				pruneable = true
			}
		}
		if why := linearizableBatch(s.model, hops, pruneable); why != "" {
			w.violate("C04", "not-linearizable", "par#%d: the concurrent puts and gets on one id admit no sequential order (%s)", s.opIdx, why)
		} else {
			w.probe("par_history_linearizable")
		}
	}
	s.model = newModel
	if v.persisted < v.real {
		w.violate("C05", "persisted-under-report", "after %d concurrent puts: persisted usage %d < bytes held %d", len(batch), v.persisted, v.real)
	}
	if mem := s.cs.VerifSize(); mem < v.real {
		w.violate("C05", "memory-under-report", "after %d concurrent puts: in-memory usage %d < bytes held %d", len(batch), mem, v.real)
	}
	if s.maxItem <= storeCap/20 && v.real > storeCap {
		w.violate("C05", "over-capacity", "after %d concurrent puts: %d bytes held > capacity %d with all items <= 5%%", len(batch), v.real, storeCap)
	}
	if before.real+uint64(len(batch))*1 > 0 && len(v.items) < len(before.items) {
		w.probe("prune_seen")
	}
	s.checkRadius("par", v)
	w.abstract("par n=%d sw=%d items=%d", len(batch), switches/4, len(v.items))
}

var _ = sort.Strings

// lockProbe finds sync.Mutex / sync.RWMutex fields of the store by reflection (the harness
// must keep compiling whether or not the store has such a field).
type lockProbe struct {
	mu *sync.Mutex
	rw *sync.RWMutex
}

func (l lockProbe) held() bool {
	if l.mu != nil {
		if l.mu.TryLock() {
			l.mu.Unlock()
			return false
		}
		return true
	}
	if l.rw.TryLock() {
		l.rw.Unlock()
		return false
	}
	return true
}

func findLocks(cs *spebble.ContentStorage) []lockProbe {
	var out []lockProbe
	v := reflect.ValueOf(cs).Elem()
	for i := 0; i < v.NumField(); i++ {
		f := v.Field(i)
		switch f.Type() {
		case reflect.TypeOf(sync.Mutex{}):
			out = append(out, lockProbe{mu: (*sync.Mutex)(unsafe.Pointer(f.UnsafeAddr()))})
		case reflect.TypeOf(sync.RWMutex{}):
			out = append(out, lockProbe{rw: (*sync.RWMutex)(unsafe.Pointer(f.UnsafeAddr()))})
		}
	}
	return out
}

// ---------- exhaustive crash-point enumeration of short histories (C17) ----------

func init() { engines["store-crashall"] = runStoreCrashAll }

// genCrashAll: a short history that brings the store near capacity, crosses it (prune) and
// continues; every FS operation index of it is then used as a crash point in every mode.
func genCrashAll(r *prng) *plan {
	p := &plan{Class: "crash-enumeration", Cfg: map[string]int64{}}
	p.Cfg["node"] = int64(r.intn(4))
	p.Cfg["memtable"] = int64(16+r.intn(100)) << 10
	p.Cfg["cache"] = int64(8+r.intn(56)) << 10
	p.Cfg["nids"] = int64(6 + r.intn(10))
	p.Cfg["idflavour"] = int64(r.intn(3))
	p.Cfg["sched"] = 1
	p.Cfg["stride"] = 1
	if r.chance(50) {
		p.Cfg["preempt"] = int64([]int{1, 2, 5, 20}[r.intn(4)])
	}
	// pre-fill close to the capacity with one large item, then a few small puts that cross it
	p.Ops = append(p.Ops, opSpec{K: "put", N: []int64{0, int64(880_000 + r.intn(60_000)), int64(r.u64() >> 1)}})
	n := 3 + r.intn(5)
	for i := 0; i < n; i++ {
		p.Ops = append(p.Ops, opSpec{K: "put", N: []int64{int64(1 + r.intn(int(p.Cfg["nids"])-1)), int64(5_000 + r.intn(44_000)), int64(r.u64() >> 1)}})
	}
	return p
}

func runStoreCrashAll(seed uint64) {
	p := loadOrGenPlan("store-crashall", seed, genCrashAll)
	w := newWorld(seed, "C17", "store-crashall")
	w.res.Class = "crash-enumeration"
	stride := int(p.cfg("stride"))
	if stride < 1 {
		stride = 1
	}
	// dry run: how many FS operations does the history perform?
	total := func() int {
		s := newStoreSimFor(w, p, seed)
		for i, op := range p.Ops {
			s.opIdx = i
			if op.K == "put" {
				s.doPut(op)
			}
		}
		n := s.disk.ops
		s.closeDB()
		return n
	}()
	w.res.Probes["fs_ops_in_history"] = total
	points := 0
	for k := 1; k <= total; k += stride {
		for mi, mode := range crashModes {
			s := newStoreSimFor(w, p, seed)
			s.disk.crashAt = k
			s.disk.keepLog = os.Getenv("VERIF_OPSEQ") != ""
			s.crashMode = mode
			s.crashSeed = seed*31 + uint64(k*4+mi) + uint64(envInt("VERIF_TORNSEED", 0))*1000003
			crashed := false
			for i, op := range p.Ops {
				s.opIdx = i
				if op.K == "put" {
					s.doPut(op)
				}
				if s.disk.image != nil {
					s.doCrashRestart()
					crashed = true
					break
				}
			}
			if !crashed {
				s.closeDB()
				continue
			}
			if s.disk.keepLog {
				w.j.logf("OPSEQ k=%d %s: %s", k, mode, strings.Join(s.disk.opLog, " | "))
			}
			points++
			if points%8 == 0 {
				runtime.GC() // the collector is off during runs; abandoned databases pile up otherwise
			}
			// the restarted store must keep working: two more puts and a get under the usual oracle
			s.opIdx = 1000
			s.doPut(opSpec{K: "put", N: []int64{int64(k % len(s.ids)), 20_000, int64(seed) + int64(k)}})
			s.doGet(opSpec{K: "get", N: []int64{int64(k % len(s.ids))}})
			s.closeDB()
			stop := false
			for _, v := range w.res.Violations {
				if v.Property != "C06" { // the recorded radius byte-order finding must not end the enumeration
					stop = true
				}
			}
			if stop {
				w.res.Ops = append(w.res.Ops, fmt.Sprintf("crash point %d of %d mode %s", k, total, mode))
				w.res.Probes["crash_points_enumerated"] = points
				w.res.Nontrivial = true
				w.finish()
			}
		}
	}
	w.res.Probes["crash_points_enumerated"] = points
	w.op("history of %d puts performs %d FS operations; %d (operation, mode) crash points enumerated", len(p.Ops), total, points)
	w.abstract("crashall ops=%d total=%d", len(p.Ops), total/10)
	w.res.Nontrivial = points > 0
	w.finish()
}

// newStoreSimFor builds a fresh store on a fresh disk for the plan (same ids for the same seed).
func newStoreSimFor(w *world, p *plan, seed uint64) *storeSim {
	s := &storeSim{w: w, p: p, model: map[[32]byte][]byte{}, ever: map[[32]byte][][]byte{}, tasks: map[uint64]*ytask{}}
	r := newPrng(seed ^ 0x5151)
	s.preempt = uint64(p.cfg("preempt"))
	switch p.cfg("node") {
	case 0:
		copy(s.nodeID[:], r.bytes(32))
	case 1:
	case 2:
		for i := range s.nodeID {
			s.nodeID[i] = 0xff
		}
	default:
		copy(s.nodeID[:], r.bytes(32))
		s.nodeID[0] = 0x80
	}
	nids := int(p.cfg("nids"))
	for i := 0; i < nids; i++ {
		var d [32]byte
		copy(d[:], r.bytes(32))
		if i == 0 {
			d = [32]byte{}
			d[31] = 1
		}
		var id [32]byte
		for k := range id {
			id[k] = d[k] ^ s.nodeID[k]
		}
		s.ids = append(s.ids, id)
	}
	spebble.VerifYield = func(string) {}
	s.disk = newSimDisk()
	if !s.open(true) {
		w.finish()
	}
	return s
}
