package sim

import (
	"crypto/sha256"
	"encoding/hex"
	"encoding/json"
	"fmt"
	"os"
	"runtime"
	"sort"
	"testing/synctest"
	"time"
)

// ---------- journal: every op, fault decision and observation ----------

type journal struct {
	h     [32]byte
	n     int
	lines []string
	keep  bool
	f     *os.File
	buf   []byte
	start time.Time
}

func newJournal(path string, keep bool) *journal {
	j := &journal{keep: keep, start: time.Now()}
	if path != "" {
		f, err := os.Create(path)
		if err != nil {
			fatal2("journal: " + err.Error())
		}
		j.f = f
	}
	return j
}

// logf must not draw randomness or read a real clock.
func (j *journal) logf(format string, a ...any) {
	s := fmt.Sprintf("%10.6f ", time.Since(j.start).Seconds()) + fmt.Sprintf(format, a...)
	hh := sha256.New()
	hh.Write(j.h[:])
	hh.Write([]byte(s))
	copy(j.h[:], hh.Sum(nil))
	j.n++
	if j.keep {
		j.lines = append(j.lines, s)
	}
	if j.f != nil {
		// kept in memory until the run ends: a write is a system call, and a system call made while
		// other goroutines are runnable lets them run earlier or later depending on how long it takes
		j.buf = append(j.buf, s...)
		j.buf = append(j.buf, '\n')
	}
}

func (j *journal) flush() {
	if j.f != nil && len(j.buf) > 0 {
		j.f.Write(j.buf)
		j.buf = nil
	}
}

func (j *journal) hash() string { return hex.EncodeToString(j.h[:8]) }

// ---------- PRNG owned by the simulator (splitmix64) ----------

type prng struct{ s uint64 }

func newPrng(seed uint64) *prng { return &prng{s: seed*0x9e3779b97f4a7c15 + 0x1234567} }
func (p *prng) u64() uint64 {
	p.s += 0x9e3779b97f4a7c15
	z := p.s
	z = (z ^ (z >> 30)) * 0xbf58476d1ce4e5b9
	z = (z ^ (z >> 27)) * 0x94d049bb133111eb
	return z ^ (z >> 31)
}
func (p *prng) intn(n int) int {
	if n <= 0 {
		return 0
	}
	return int(p.u64() % uint64(n))
}
func (p *prng) chance(pct int) bool { return p.intn(100) < pct }
func (p *prng) bytes(n int) []byte {
	b := make([]byte, n)
	for i := range b {
		b[i] = byte(p.u64())
	}
	return b
}
func (p *prng) pick(n int) int { return p.intn(n) }
func (p *prng) dur(lo, hi time.Duration) time.Duration {
	if hi <= lo {
		return lo
	}
	return lo + time.Duration(p.u64()%uint64(hi-lo))
}

// ---------- violation reporting ----------

type violation struct {
	Property string `json:"property"`
	Clause   string `json:"clause"`
	Detail   string `json:"detail"`
}

// result is what one run (one OS process) reports back to the driver.
type result struct {
	Property   string         `json:"property"`
	Engine     string         `json:"engine"`
	Seed       uint64         `json:"seed"`
	Class      string         `json:"class"`
	Hash       string         `json:"hash"`
	Events     int            `json:"events"`
	VirtualS   float64        `json:"virtual_s"`
	Faults     map[string]int `json:"faults"`
	Probes     map[string]int `json:"probes"`
	Shape      string         `json:"shape"` // abstract event sequence hash (distinctness measure)
	Nontrivial bool           `json:"nontrivial"`
	Ops        []string       `json:"ops"`
	Violations []violation    `json:"violations"`
	Note       string         `json:"note,omitempty"`
}

type world struct {
	seed          uint64
	rng           *prng
	net           *simNet
	j             *journal
	start         time.Time
	res           *result
	shape         [32]byte
	checks        []func() // invariants evaluated at every quiescent step
	inflightTasks int
	// a run that stops for good on a leaked mutex is a violation of this engine's property (see wedge_test.go)
	wedgeIsViolation bool
	// optional statement-level scheduler for instrumented code of the nodes (see ysched.drain)
	ys    *ysched
	ysRng *prng
}

func newWorld(seed uint64, prop, engine string) *world {
	j := newJournal(os.Getenv("VERIF_JOURNAL"), os.Getenv("VERIF_KEEPLOG") != "")
	w := &world{seed: seed, rng: newPrng(seed), j: j, start: time.Now()}
	w.net = newSimNet(seed, j)
	w.res = &result{Property: prop, Engine: engine, Seed: seed, Faults: map[string]int{}, Probes: map[string]int{}}
	curWorld = w
	return w
}

func (w *world) now() time.Duration { return time.Since(w.start) }

func (w *world) probe(name string) { w.res.Probes[name]++ }

func (w *world) op(format string, a ...any) {
	s := fmt.Sprintf(format, a...)
	if len(w.res.Ops) < 400 {
		w.res.Ops = append(w.res.Ops, s)
	}
	w.j.logf("OP %s", s)
}

// abstract adds a tuple to the abstract event sequence (kind/node/outcome), the
// measure of distinct behaviours reported as evidence.
func (w *world) abstract(format string, a ...any) {
	s := fmt.Sprintf(format, a...)
	hh := sha256.New()
	hh.Write(w.shape[:])
	hh.Write([]byte(s))
	copy(w.shape[:], hh.Sum(nil))
}

func (w *world) violate(prop, clause, format string, a ...any) {
	v := violation{Property: prop, Clause: clause, Detail: fmt.Sprintf(format, a...)}
	w.j.logf("VIOLATION %s %s: %s", prop, clause, v.Detail)
	if len(w.res.Violations) < 20 {
		w.res.Violations = append(w.res.Violations, v)
	}
}

// step: wait for quiescence, route and deliver datagrams, evaluate invariants, then
// sleep (virtually) until the next delivery, a socket write, or maxWait.
func (w *world) step(maxWait time.Duration) {
	synctest.Wait()
	if w.ys != nil && w.ys.on {
		w.res.Probes["ysched_resumes"] += w.ys.drain(w.ysRng)
		if w.ys.stalls > 0 {
			w.res.Faults["goroutine_stall"] = w.ys.stalls
		}
	}
	w.net.route()
	n := w.net.deliverDue()
	for _, c := range w.checks {
		c()
	}
	if n > 0 {
		return
	}
	d := maxWait
	if at, ok := w.net.nextDelivery(); ok {
		if wait := at - w.net.now(); wait < d {
			d = wait
		}
	}
	if d <= 0 {
		return
	}
	t := time.NewTimer(d)
	select {
	case <-t.C:
	case <-w.net.wake:
	}
	t.Stop()
}

func (w *world) runFor(d time.Duration) {
	end := w.now() + d
	for w.now() < end {
		w.step(end - w.now())
	}
	synctest.Wait()
}

// runUntil steps until cond holds (checked at quiescence) or max virtual time passed.
func (w *world) runUntil(cond func() bool, max time.Duration) bool {
	end := w.now() + max
	for {
		synctest.Wait()
		if cond() {
			return true
		}
		if w.now() >= end {
			return false
		}
		w.step(end - w.now())
	}
}

// task runs fn as a client goroutine inside the bubble; done reports completion.
type task struct {
	name string
	done bool
	err  error
}

func (w *world) spawn(name string, fn func() error) *task {
	t := &task{name: name}
	w.inflightTasks++
	go func() {
		t.err = fn()
		t.done = true
		w.inflightTasks--
		select {
		case w.net.wake <- struct{}{}:
		default:
		}
	}()
	return t
}

// call runs fn as a task and steps the world until it returns or max passes.
func (w *world) call(name string, max time.Duration, fn func() error) (bool, error) {
	t := w.spawn(name, fn)
	ok := w.runUntil(func() bool { return t.done }, max)
	return ok, t.err
}

// finish writes the result file and leaves the process (one run per process).
func (w *world) finish() {
	if os.Getenv("VERIF_DUMP") != "" {
		buf := make([]byte, 8<<20)
		n := runtime.Stack(buf, true)
		os.Stderr.Write(buf[:n])
	}
	w.net.route()
	for k, v := range w.net.stats {
		w.res.Faults[k] += v
	}
	w.j.logf("NET %d datagrams %x", w.net.nsent, w.net.nh[:8])
	w.j.flush()
	w.res.Hash = w.j.hash()
	w.res.Events = w.j.n
	w.res.VirtualS = w.now().Seconds()
	w.res.Shape = hex.EncodeToString(w.shape[:8])
	writeResult(w.res)
	os.Exit(0)
}

func writeResult(r *result) {
	b, _ := json.Marshal(r)
	if p := os.Getenv("VERIF_OUT"); p != "" {
		if err := os.WriteFile(p, b, 0o644); err != nil {
			fatal2("write result: " + err.Error())
		}
	} else {
		fmt.Println("RESULT " + string(b))
	}
}

func sortedKeys[V any](m map[string]V) []string {
	ks := make([]string, 0, len(m))
	for k := range m {
		ks = append(ks, k)
	}
	sort.Strings(ks)
	return ks
}

// fault counts an injected fault that actually fired (evidence: faults_fired).
func (w *world) fault(kind string) { w.res.Faults[kind]++ }
