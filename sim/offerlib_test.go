package sim

import (
	"context"
	"encoding/binary"
	"errors"
	"net"
	"time"

	"github.com/ethereum/go-ethereum/p2p/enode"
	"github.com/zen-eth/shisui/portalwire"
)

// Shared pieces for the offer-related engines (C09, C16, C19).

// offer outcomes a puppet can force on an OFFER it receives
const (
	osSilent = iota
	osEmpty
	osWrongCode
	osGarbage
	osWrongCount
	osDecline
	osAcceptNoListen
	osAcceptCloseEarly
	osAcceptOK
	osAcceptStall
	osCount
)

var osNames = []string{"silent", "empty", "wrong-code", "garbage-accept", "wrong-count", "decline", "accept-no-listen", "accept-close-early", "accept-ok", "accept-stall"}

// encAccept is the harness' own ACCEPT encoder. accepted[i] true = accept key i.
func encAccept(ver uint8, connID uint16, accepted []bool) []byte {
	out := []byte{portalwire.ACCEPT, byte(connID >> 8), byte(connID), 6, 0, 0, 0}
	if ver == 0 {
		n := len(accepted)
		bl := make([]byte, n/8+1)
		for i, a := range accepted {
			if a {
				bl[i/8] |= 1 << uint(i%8)
			}
		}
		bl[n/8] |= 1 << uint(n%8) // length sentinel
		return append(out, bl...)
	}
	for _, a := range accepted {
		if a {
			out = append(out, 0)
		} else {
			out = append(out, 1)
		}
	}
	return out
}

// acceptReply is the harness' own decoding of an ACCEPT response.
type acceptReply struct {
	ok     bool
	why    string
	connID uint16
	codes  []uint8 // per key: 0 accepted, other = declined (v0 declined = 1)
}

func decAccept(ver uint8, resp []byte) acceptReply {
	if len(resp) == 0 {
		return acceptReply{why: "empty reply"}
	}
	if resp[0] != portalwire.ACCEPT {
		return acceptReply{why: "not an ACCEPT"}
	}
	b := resp[1:]
	if len(b) < 6 {
		return acceptReply{why: "short accept"}
	}
	if binary.LittleEndian.Uint32(b[2:6]) != 6 {
		return acceptReply{why: "bad offset"}
	}
	r := acceptReply{ok: true, connID: binary.BigEndian.Uint16(b[:2])}
	body := b[6:]
	if ver == 0 {
		if len(body) == 0 {
			return acceptReply{why: "empty bitlist"}
		}
		last := body[len(body)-1]
		if last == 0 {
			return acceptReply{why: "bitlist without sentinel"}
		}
		msb := 7
		for last&(1<<uint(msb)) == 0 {
			msb--
		}
		n := (len(body)-1)*8 + msb
		for i := 0; i < n; i++ {
			if body[i/8]&(1<<uint(i%8)) != 0 {
				r.codes = append(r.codes, 0)
			} else {
				r.codes = append(r.codes, 1)
			}
		}
		return r
	}
	r.codes = append(r.codes, body...)
	return r
}

func (a acceptReply) anyAccepted() bool {
	for _, c := range a.codes {
		if c == 0 {
			return true
		}
	}
	return false
}

func (a acceptReply) acceptedIdx() []int {
	var out []int
	for i, c := range a.codes {
		if c == 0 {
			out = append(out, i)
		}
	}
	return out
}

// decOfferKeys decodes an OFFER request (harness' own decoder).
func decOfferKeys(msg []byte) ([][]byte, error) {
	if len(msg) < 5 || msg[0] != portalwire.OFFER {
		return nil, errors.New("not an offer")
	}
	if binary.LittleEndian.Uint32(msg[1:5]) != 4 {
		return nil, errors.New("bad offset")
	}
	return decByteLists(msg[5:])
}

// availPermits counts free slots non-destructively (atomic on a single, non-preempted P).
func availPermits(get func() (portalwire.Permit, bool)) int {
	var ps []portalwire.Permit
	for len(ps) < 100000 {
		p, ok := get()
		if !ok {
			break
		}
		ps = append(ps, p)
	}
	for _, p := range ps {
		p.Release()
	}
	return len(ps)
}

// offerTracker counts streams that are open right now, as seen from the puppets.
type offerTracker struct {
	openOut, maxOut int // streams the node under test opened towards puppets (its outbound offers)
	openIn, maxIn   int // streams puppets opened towards the node under test (its inbound offers)
	received        map[string][]byte
	stalledSince    []time.Duration          // establishment times of inbound streams the puppet stalls
	noListenAt      []time.Duration          // when an offer was accepted without any listener behind the connection id
	bigStallAt      [][2]time.Duration       // outbound streams of a 3 MB item that the puppet never reads: {established at, ACCEPT sent at}
	bigKeys         map[string]bool          // content keys of 3 MB items
	pendingDial     map[uint16]time.Duration // accepted offers whose stream the offerer has not established yet (by connection id)
	now             func() time.Duration
	outcomes        map[string]int
}

func newOfferTracker() *offerTracker {
	return &offerTracker{received: map[string][]byte{}, outcomes: map[string]int{}, pendingDial: map[uint16]time.Duration{}, bigKeys: map[string]bool{}}
}

// serveOffer implements the puppet side of an OFFER it received, according to outcome.
// It returns the TALKRESP payload; streams are handled in goroutines of the bubble.
func (p *puppet) serveOffer(w *world, tr *offerTracker, myVers, peerVers []uint8, outcome int, from *enode.Node, addr *net.UDPAddr, msg []byte) []byte {
	keys, err := decOfferKeys(msg)
	if err != nil {
		return nil
	}
	ver, _ := highestCommon(myVers, peerVers, true)
	tr.outcomes[osNames[outcome]]++
	all := make([]bool, len(keys))
	for i := range all {
		all[i] = true
	}
	none := make([]bool, len(keys))
	switch outcome {
	case osSilent:
		time.Sleep(5 * time.Second) // the request times out at the sender first
		return nil
	case osEmpty:
		return []byte{}
	case osWrongCode:
		return []byte{portalwire.NODES, 1, 5, 0, 0, 0}
	case osGarbage:
		return []byte{portalwire.ACCEPT, 0xff}
	case osWrongCount:
		return encAccept(ver, 7, append(all, true))
	case osDecline:
		return encAccept(ver, 0, none)
	case osAcceptNoListen:
		if tr.now != nil {
			tr.noListenAt = append(tr.noListenAt, tr.now())
		}
		// a fresh id each time: a second dial of an id that is still being dialled is refused at once
		return encAccept(ver, uint16(4242+7*len(tr.noListenAt)), all)
	}
	cid := p.utp.CidWithAddr(from, addr, false)
	var acceptedAt time.Duration
	if tr.now != nil {
		acceptedAt = tr.now()
		tr.pendingDial[cid.Send] = acceptedAt
	}
	go func() {
		ctx, cancel := context.WithTimeout(context.Background(), 30*time.Second)
		defer cancel()
		st, err := p.utp.AcceptWithCid(ctx, cid)
		if err != nil {
			return
		}
		tr.openOut++
		if tr.openOut > tr.maxOut {
			tr.maxOut = tr.openOut
		}
		defer func() { tr.openOut-- }()
		switch outcome {
		case osAcceptCloseEarly:
			st.Close()
		case osAcceptStall:
			if tr.now != nil && len(keys) > 0 && tr.bigKeys[string(keys[0])] {
				tr.bigStallAt = append(tr.bigStallAt, [2]time.Duration{tr.now(), acceptedAt})
			}
			time.Sleep(90 * time.Second)
			st.Close()
		default:
			rctx, rcancel := context.WithTimeout(context.Background(), 120*time.Second)
			defer rcancel()
			var data []byte
			_, rerr := st.ReadToEOF(rctx, &data)
			st.Close()
			if rerr == nil {
				tr.received[string(keys[0])] = data
			}
		}
	}()
	return encAccept(ver, cid.Send, all)
}

// inbound behaviours of a puppet after the node under test accepted its offer
const (
	ibNoDial = iota
	ibComplete
	ibStall
	ibWrongCount
	ibGarbage
	ibCloseAtOnce
	ibCount
)

var ibNames = []string{"no-dial", "complete", "stall", "wrong-count", "garbage", "close-at-once"}

// sendOfferedContent performs the puppet's side of an accepted inbound offer.
func (p *puppet) sendOfferedContent(tr *offerTracker, to *enode.Node, connID uint16, items [][]byte, behaviour int) error {
	if behaviour == ibNoDial {
		return nil
	}
	ctx, cancel := context.WithTimeout(context.Background(), 20*time.Second)
	defer cancel()
	st, err := p.utp.DialWithCid(ctx, to, connID)
	if err != nil {
		return err
	}
	tr.openIn++
	if tr.openIn > tr.maxIn {
		tr.maxIn = tr.openIn
	}
	defer func() { tr.openIn-- }()
	defer st.Close()
	var payload []byte
	switch behaviour {
	case ibComplete:
		payload = frameItems(items)
	case ibWrongCount:
		payload = frameItems(append(append([][]byte{}, items...), []byte("extra")))
	case ibGarbage:
		payload = []byte{0xff, 0xff, 0xff, 0xff, 0xff, 0xff, 0x01, 0x02}
	case ibCloseAtOnce:
		return nil
	case ibStall:
		if tr.now != nil {
			tr.stalledSince = append(tr.stalledSince, tr.now())
		}
		time.Sleep(80 * time.Second)
		return nil
	}
	wctx, wcancel := context.WithTimeout(context.Background(), 100*time.Second)
	defer wcancel()
	_, err = st.Write(wctx, payload)
	return err
}
