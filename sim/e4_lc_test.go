package sim

import (
	"crypto/sha256"
	"fmt"
	"time"

	"github.com/ethereum/go-ethereum/log"
	blsu "github.com/protolambda/bls12-381-util"
	"github.com/protolambda/zrnt/eth2/beacon/altair"
	zc "github.com/protolambda/zrnt/eth2/beacon/common"
	"github.com/protolambda/zrnt/eth2/configs"
	"github.com/protolambda/ztyp/tree"
	"github.com/zen-eth/shisui/beacon"
)

// E4 simlc / C12 — the light client only advances on verified, sufficiently signed updates.
//
// Synthetic 512-member committees over a handful of BLS keys (duplicates are legal), state roots
// built by folding leaves at the consensus-spec generalized indices (finalized root 105, next sync
// committee 55), so that honest branches exist by construction and the harness knows, for every
// update it builds and then corrupts, which clause of the statement is true.

func init() { engines["lc"] = runLC }

const (
	lcSlotsPerPeriod = 8192
	lcBaseSlot       = 9_000_000 + 4000 // deneb era, far from fork boundaries
)

type lcKey struct {
	sk *blsu.SecretKey
	pk zc.BLSPubkey
}

type lcCommittee struct {
	c    *zc.SyncCommittee
	keys []int // key index per position
	root zc.Root
}

type lcWorld struct {
	keys    []lcKey
	comms   map[uint64]*lcCommittee // by period
	rs      *prng
	spec    *zc.Spec
	sigMemo map[string]*blsu.Signature
}

func (lw *lcWorld) committee(period uint64) *lcCommittee {
	if c, ok := lw.comms[period]; ok {
		return c
	}
	r := newPrng(period*977 + 13)
	c := &lcCommittee{c: &zc.SyncCommittee{}}
	c.c.Pubkeys = make([]zc.BLSPubkey, 512)
	var pks []*blsu.Pubkey
	for i := 0; i < 512; i++ {
		k := r.intn(len(lw.keys))
		c.keys = append(c.keys, k)
		c.c.Pubkeys[i] = lw.keys[k].pk
		p, _ := lw.keys[k].pk.Pubkey()
		pks = append(pks, p)
	}
	agg, _ := blsu.AggregatePubkeys(pks)
	c.c.AggregatePubkey = agg.Serialize()
	c.root = c.c.HashTreeRoot(lw.spec, tree.GetHashFn())
	lw.comms[period] = c
	return c
}

func h2(a, b zc.Root) zc.Root {
	var buf [64]byte
	copy(buf[:32], a[:])
	copy(buf[32:], b[:])
	return sha256.Sum256(buf[:])
}

// stateTree builds the part of a beacon state tree that holds the finalized root (gindex 105)
// and the next sync committee (gindex 55), and returns the state root with both branches.
func (lw *lcWorld) stateTree(finalizedRoot, nextCommRoot zc.Root) (root zc.Root, fin altair.FinalizedRootProofBranch, nsc altair.SyncCommitteeProofBranch) {
	rnd := func() (r zc.Root) { copy(r[:], lw.rs.bytes(32)); return }
	n104, n53, n54, n12, n7, n2 := rnd(), rnd(), rnd(), rnd(), rnd(), rnd()
	n52 := h2(n104, finalizedRoot) // 105 is the right child of 52
	n26 := h2(n52, n53)
	n27 := h2(n54, nextCommRoot) // 55 is the right child of 27
	n13 := h2(n26, n27)
	n6 := h2(n12, n13)
	n3 := h2(n6, n7)
	root = h2(n2, n3)
	fin = altair.FinalizedRootProofBranch{n104, n53, n27, n12, n7, n2}
	nsc = altair.SyncCommitteeProofBranch{n54, n26, n12, n7, n2}
	return
}

func (lw *lcWorld) header(slot uint64, stateRoot zc.Root) *zc.BeaconBlockHeader {
	h := &zc.BeaconBlockHeader{Slot: zc.Slot(slot), ProposerIndex: zc.ValidatorIndex(lw.rs.intn(100000)), StateRoot: stateRoot}
	copy(h.ParentRoot[:], lw.rs.bytes(32))
	copy(h.BodyRoot[:], lw.rs.bytes(32))
	return h
}

// sign produces the aggregate of the participating positions' signatures over the signing root.
func (lw *lcWorld) sign(comm *lcCommittee, bits []bool, attested *zc.BeaconBlockHeader, forkVersion zc.Version, genesisRoot zc.Root) zc.BLSSignature {
	domain := zc.ComputeDomain(zc.BLSDomainType{0x07, 0, 0, 0}, forkVersion, genesisRoot)
	sd := zc.SigningData{ObjectRoot: attested.HashTreeRoot(tree.GetHashFn()), Domain: domain}
	msg := sd.HashTreeRoot(tree.GetHashFn())
	var sigs []*blsu.Signature
	for i, b := range bits {
		if !b {
			continue
		}
		k := comm.keys[i]
		memo := fmt.Sprintf("%d|%x", k, msg)
		s, ok := lw.sigMemo[memo]
		if !ok {
			s = blsu.Sign(lw.keys[k].sk, msg[:])
			lw.sigMemo[memo] = s
		}
		sigs = append(sigs, s)
	}
	if len(sigs) == 0 {
		// infinity signature: G2 point at infinity in compressed form
		var out zc.BLSSignature
		out[0] = 0xc0
		return out
	}
	agg, err := blsu.Aggregate(sigs)
	if err != nil {
		fatal2("bls aggregate: " + err.Error())
	}
	return agg.Serialize()
}

func bitsOf(bs []bool) altair.SyncCommitteeBits {
	out := make(altair.SyncCommitteeBits, 64)
	for i, b := range bs {
		if b {
			out[i/8] |= 1 << uint(i%8)
		}
	}
	return out
}

func genLC(r *prng) *plan {
	p := &plan{Cfg: map[string]int64{}}
	p.Cfg["nkeys"] = int64(2 + r.intn(5))
	p.Cfg["hasnext"] = int64(r.intn(2))
	n := 4 + r.intn(8)
	if r.chance(35) {
		// a story across a period boundary: learn the next committee with a supermajority full update,
		// let more than a period of virtual time pass, then finalize in the next period (rotation),
		// with a few bent updates in between
		bent := func() opSpec {
			return opSpec{K: "update", N: []int64{int64(r.intn(3)), int64([]int{4, 2, 8}[r.intn(3)]), int64(r.intn(10)), int64(r.intn(13)), int64(r.intn(5) / 3), int64(r.u64() >> 1)}}
		}
		p.Ops = append(p.Ops, opSpec{K: "update", N: []int64{0, 2, 7, 0, 0, int64(r.u64() >> 1)}})
		p.Ops = append(p.Ops, bent())
		p.Ops = append(p.Ops, opSpec{K: "sleep", N: []int64{2, 0}})
		p.Ops = append(p.Ops, opSpec{K: "update", N: []int64{int64(r.intn(2)), 4, 7, 0, 0, int64(r.u64() >> 1)}})
		p.Ops = append(p.Ops, bent())
		p.Ops = append(p.Ops, opSpec{K: "update", N: []int64{0, 2, int64(2 + r.intn(8)), 0, 0, int64(r.u64() >> 1)}})
		p.Ops = append(p.Ops, bent())
		if r.chance(50) {
			p.Ops = append(p.Ops, opSpec{K: "sleep", N: []int64{2, 0}})
			p.Ops = append(p.Ops, opSpec{K: "update", N: []int64{int64(r.intn(2)), 4, 7, 0, 0, int64(r.u64() >> 1)}})
			p.Ops = append(p.Ops, bent())
		}
		n = r.intn(4)
	}
	for i := 0; i < n; i++ {
		// kind, slot relation, participation class, corruption, time relation, seed
		// most dimensions are left valid in each update, so that a good share of the updates verifies
		// and the store actually advances; one or two dimensions are bent
		rel := int64([]int{2, 3, 8, 2, 3, 8, 6, 4}[r.intn(8)])
		part := int64(2 + r.intn(8))
		corrupt := int64(0)
		tim := int64(0)
		switch r.intn(10) {
		case 0, 1:
			rel = int64(r.intn(9))
		case 2:
			part = int64(r.intn(10))
		case 3, 4, 5:
			corrupt = int64(1 + r.intn(12))
		case 6:
			tim = int64(1 + r.intn(4))
		}
		if r.chance(7) {
			// a full update that straddles the period boundary behind the store: attested (and finalized) in the
			// last slots of the previous period, signed in the first slots of the store's period by its committee
			rel, tim, corrupt = 9, 4, 0
			p.Ops = append(p.Ops, opSpec{K: "update", N: []int64{0, rel, int64(3 + r.intn(5)), corrupt, tim, int64(r.u64() >> 1)}})
			continue
		}
		p.Ops = append(p.Ops, opSpec{K: "update", N: []int64{int64(r.intn(3)), rel, part, corrupt, tim, int64(r.u64() >> 1)}})
		if r.chance(12) {
			// the aggregate that was just presented comes again with one more participation bit set
			p.Ops = append(p.Ops, opSpec{K: "replay", N: []int64{int64(r.intn(3)), int64(r.u64() >> 1)}})
		}
		if r.chance(20) {
			p.Ops = append(p.Ops, opSpec{K: "sleep", N: []int64{int64(r.intn(3)), int64(r.intn(100))}})
		}
	}
	return p
}

func lcParticipation(class int64, rs *prng) int {
	switch class {
	case 0:
		return 0
	case 1:
		return 1
	case 2:
		return 341
	case 3:
		return 342
	case 4:
		return 512
	case 5:
		return 170 + rs.intn(4)
	case 6:
		return 256
	}
	return 343 + rs.intn(169)
}

func runLC(seed uint64) {
	p := loadOrGenPlan("lc", seed, genLC)
	w := newWorld(seed, "C12", "lc")
	w.res.Class = "direct"
	rs := newPrng(seed ^ 0x1c12)
	lw := &lcWorld{comms: map[uint64]*lcCommittee{}, rs: rs, spec: configs.Mainnet, sigMemo: map[string]*blsu.Signature{}}
	for i := 0; i < int(p.cfg("nkeys")); i++ {
		var skb [32]byte
		copy(skb[1:], rs.bytes(31)) // < r
		sk := new(blsu.SecretKey)
		if err := sk.Deserialize(&skb); err != nil {
			fatal2("bls sk: " + err.Error())
		}
		pk, _ := blsu.SkToPk(sk)
		lw.keys = append(lw.keys, lcKey{sk: sk, pk: pk.Serialize()})
	}
	cfg := beacon.DefaultConfig()
	// current slot: a bit after the bootstrap header, in the same period
	bootSlot := uint64(lcBaseSlot + rs.intn(2000))
	curSlot := bootSlot + 40 + uint64(rs.intn(300))
	cfg.Chain.GenesisTime = uint64(time.Now().Unix()) - curSlot*12
	lc, err := beacon.NewConsensusLightClient(nil, &cfg, zc.Root{}, log.Root())
	if err != nil {
		fatal2("lc: " + err.Error())
	}
	period := func(slot uint64) uint64 { return slot / lcSlotsPerPeriod }
	boot := lw.header(bootSlot, zc.Root{1})
	lc.Store = beacon.LightClientStore{FinalizedHeader: boot, CurrentSyncCommittee: lw.committee(period(bootSlot)).c, OptimisticHeader: boot}
	if p.cfg("hasnext") == 1 {
		lc.Store.NextSyncCommittee = lw.committee(period(bootSlot) + 1).c
	}
	genesisRoot := cfg.Chain.GenesisRoot
	nowSlot := func() uint64 {
		return uint64(cfg.Spec.TimeToSlot(zc.Timestamp(time.Now().Unix()), zc.Timestamp(cfg.Chain.GenesisTime)))
	}

	var lastU *beacon.GenericUpdate
	var lastBits, lastSignBits []bool
	var lastSigner *lcCommittee
	var lastMsgOK bool
	for opi, op := range p.Ops {
		if op.K == "sleep" {
			// clock faults: virtual time passes (also across a period boundary)
			d := []time.Duration{12 * time.Second, 10 * time.Minute, 28 * time.Hour}[op.n(0)%3] * time.Duration(1+op.n(1)%3)
			time.Sleep(d)
			w.op("sleep %v (current slot now %d)", d, nowSlot())
			w.abstract("sleep %d", op.n(0)%3)
			w.probe("clock_jump")
			continue
		}
		if op.K == "replay" {
			if lastU == nil {
				continue
			}
			rr := newPrng(uint64(op.n(1)) + 3)
			bits := append([]bool{}, lastBits...)
			var cand []int
			want := op.n(0)%2 == 0 // true: set a bit that was clear; false: clear one that was set
			for i, b := range bits {
				if b != want {
					cand = append(cand, i)
				}
			}
			if len(cand) == 0 {
				continue
			}
			i := cand[rr.intn(len(cand))]
			bits[i] = want
			u2 := *lastU
			u2.SyncAggregate = &altair.SyncAggregate{SyncCommitteeBits: bitsOf(bits), SyncCommitteeSignature: lastU.SyncAggregate.SyncCommitteeSignature}
			// ground truth: the bytes are a valid aggregate for the new bitmap only if the keys at the marked
			// positions of the committee the store now holds for that period are, as a multiset, the keys that
			// signed (the presented aggregate may itself have been one with a bent bitmap)
			sp := uint64(u2.SignatureSlot) / lcSlotsPerPeriod
			fp := uint64(lc.Store.FinalizedHeader.Slot) / lcSlotsPerPeriod
			var sc *zc.SyncCommittee
			if sp == fp {
				sc = lc.Store.CurrentSyncCommittee
			} else if sp == fp+1 {
				sc = lc.Store.NextSyncCommittee
			}
			var verifier *lcCommittee
			for _, c := range lw.comms {
				if c.c == sc {
					verifier = c
				}
			}
			coincides := false
			if verifier != nil && lastMsgOK {
				wantK, haveK := make([]int, len(lw.keys)), make([]int, len(lw.keys))
				for j := range bits {
					if bits[j] {
						wantK[verifier.keys[j]]++
					}
					if lastSignBits[j] {
						haveK[lastSigner.keys[j]]++
					}
				}
				coincides = true
				for k := range wantK {
					coincides = coincides && wantK[k] == haveK[k]
				}
			}
			verr := lc.VerifyGenericUpdate(&lc.Store, &u2, nowSlot(), genesisRoot, cfg.Spec.ForkVersion(u2.SignatureSlot))
			if coincides {
				w.probe("replay_is_valid_aggregate")
				continue
			}
			w.op("replay#%d of the last aggregate with participation bit %d %s -> verify err=%v", opi, i, map[bool]string{true: "set", false: "cleared"}[want], verr)
			w.abstract("replay %v ok=%v", want, verr == nil)
			w.probe("replayed_aggregate")
			if verr == nil {
				w.violate("C12", "accepted-invalid", "the aggregate presented before came again with participation bit %d %s (same header, same signature bytes) and passed verification: the signature is not valid for exactly the participating keys", i, map[bool]string{true: "set", false: "cleared"}[want])
			}
			continue
		}
		ors := newPrng(uint64(op.n(5)) + 9)
		st := &lc.Store
		finSlot, optSlot := uint64(st.FinalizedHeader.Slot), uint64(st.OptimisticHeader.Slot)
		storePeriod := period(finSlot)
		cur := nowSlot()
		kind := op.n(0) % 3 // 0 full update, 1 finality update, 2 optimistic update
		// --- slots ---
		var attSlot uint64
		switch op.n(1) {
		case 0:
			attSlot = finSlot // not newer
		case 1:
			if finSlot > 10 {
				attSlot = finSlot - 1 - uint64(ors.intn(10))
			}
		case 2, 3:
			attSlot = maxU(finSlot, optSlot) + 1 + uint64(ors.intn(64))
		case 4:
			attSlot = (storePeriod+1)*lcSlotsPerPeriod + 3 + uint64(ors.intn(200)) // next period
		case 5:
			attSlot = (storePeriod+2)*lcSlotsPerPeriod + uint64(ors.intn(200)) // two periods ahead
		case 6:
			attSlot = (storePeriod+1)*lcSlotsPerPeriod - 1 - uint64(ors.intn(3)) // last slots of the period
		case 9:
			attSlot = storePeriod*lcSlotsPerPeriod - 1 - uint64(ors.intn(3)) // the last slots of the previous period
		case 7:
			attSlot = optSlot // equal to optimistic
		default:
			attSlot = finSlot + 1 + uint64(ors.intn(3000))
		}
		sigSlot := attSlot + 1 + uint64(ors.intn(3))
		switch op.n(4) {
		case 1:
			sigSlot = attSlot // not after the attested slot
		case 2:
			if attSlot > 0 {
				sigSlot = attSlot - 1
			}
		case 3:
			sigSlot = cur + 1 + uint64(ors.intn(5)) // in the future
			if sigSlot <= attSlot {
				sigSlot = attSlot + 1
			}
		case 4:
			sigSlot = (period(attSlot)+1)*lcSlotsPerPeriod + uint64(ors.intn(4)) // signed in the following period
		}
		updFinSlot := uint64(0)
		if kind != 2 {
			switch ors.intn(14) {
			case 0:
				updFinSlot = attSlot + 1 + uint64(ors.intn(4)) // after the attested slot: invalid
			case 1:
				updFinSlot = finSlot // not newer than the store
			default:
				if attSlot > 64 {
					updFinSlot = attSlot - 64 + uint64(ors.intn(32))
				}
				if op.n(1) == 4 && attSlot%lcSlotsPerPeriod > 2 {
					// attested early in the next period: finalize inside that period as well
					updFinSlot = attSlot - 1 - uint64(ors.intn(int(attSlot%lcSlotsPerPeriod)-1))
				}
			}
		}
		// --- committees ---
		sigPeriod := period(sigSlot)
		attPeriod := period(attSlot)
		var storeComm *zc.SyncCommittee // the committee the store holds for the signature period
		switch {
		case sigPeriod == storePeriod:
			storeComm = st.CurrentSyncCommittee
		case sigPeriod == storePeriod+1:
			storeComm = st.NextSyncCommittee
		}
		signer := lw.committee(sigPeriod) // who really signs (the canonical committee of that period)
		nextComm := lw.committee(attPeriod + 1)
		// --- build the honest update ---
		finHdr := lw.header(updFinSlot, zc.Root{2})
		var finRoot zc.Root
		if kind != 2 {
			finRoot = finHdr.HashTreeRoot(tree.GetHashFn())
		}
		stateRoot, finBranch, nscBranch := lw.stateTree(finRoot, nextComm.root)
		att := lw.header(attSlot, stateRoot)
		npart := lcParticipation(op.n(2), ors)
		bits := make([]bool, 512)
		for _, i := range permN(ors, 512)[:npart] {
			bits[i] = true
		}
		forkVersion := cfg.Spec.ForkVersion(zc.Slot(sigSlot))
		u := &beacon.GenericUpdate{AttestedHeader: att, SignatureSlot: zc.Slot(sigSlot)}
		if kind != 2 {
			u.FinalizedHeader, u.FinalityBranch = finHdr, &finBranch
		}
		if kind == 0 {
			u.NextSyncCommittee, u.NextSyncCommitteeBranch = nextComm.c, &nscBranch
		}
		// --- corruption (after everything honest is fixed) ---
		corrupt := op.n(3)
		sigOK, finProofOK, nscProofOK := true, true, true
		signBits := append([]bool{}, bits...)
		signAtt := *att
		signVersion, signGenesis := forkVersion, genesisRoot
		desc := "honest"
		switch corrupt {
		case 1:
			desc = "non-signer marked as participant"
			for i := range bits {
				if !bits[i] {
					bits[i] = true
					// position may share its key with nobody / somebody: the aggregate is wrong either way
					sigOK = false
					break
				}
			}
			if npart == 512 {
				sigOK = true
				desc = "honest"
			}
		case 2:
			desc = "signer's bit cleared"
			for i := range bits {
				if bits[i] {
					bits[i] = false
					sigOK = false
					break
				}
			}
			if npart == 0 {
				sigOK = true
				desc = "honest"
			}
		case 3:
			desc = "finality branch node altered"
			if kind != 2 {
				finBranch[ors.intn(6)][ors.intn(32)] ^= 0x20
				finProofOK = false
			} else {
				desc = "honest"
			}
		case 4:
			desc = "next committee branch node altered"
			if kind == 0 {
				nscBranch[ors.intn(5)][ors.intn(32)] ^= 0x08
				nscProofOK = false
			} else {
				desc = "honest"
			}
		case 5:
			desc = "attested header changed after signing"
			att.ProposerIndex++
			sigOK = false
			// the state root is untouched, branches still hold
		case 6:
			desc = "finalized header changed"
			if kind != 2 {
				finHdr.ProposerIndex += 7
				finProofOK = false
			} else {
				desc = "honest"
			}
		case 7:
			desc = "next committee key replaced"
			if kind == 0 {
				cc := *nextComm.c
				cc.Pubkeys = append([]zc.BLSPubkey{}, nextComm.c.Pubkeys...)
				cc.Pubkeys[ors.intn(512)] = lw.keys[0].pk
				if cc.HashTreeRoot(lw.spec, tree.GetHashFn()) != nextComm.root {
					u.NextSyncCommittee = &cc
					nscProofOK = false
				} else {
					desc = "honest"
				}
			} else {
				desc = "honest"
			}
		case 8:
			desc = "signed by another period's committee"
			signer = lw.committee(sigPeriod + 1)
			sigOK = false
		case 9:
			desc = "signed under another fork version"
			signVersion = zc.Version{9, 9, 9, 9}
			sigOK = false
		case 10:
			desc = "signed under another genesis root"
			signGenesis = zc.Root{0xaa}
			sigOK = false
		case 11:
			desc = "signature bytes altered"
		case 12:
			desc = "attested state root altered"
			att.StateRoot[ors.intn(32)] ^= 0x01
			sigOK = false
			finProofOK = kind == 2
			nscProofOK = kind != 0
		}
		sig := lw.sign(signer, signBits, &signAtt, signVersion, signGenesis)
		if corrupt == 11 {
			sig[50] ^= 0x04
			sigOK = false
		}
		u.SyncAggregate = &altair.SyncAggregate{SyncCommitteeBits: bitsOf(bits), SyncCommitteeSignature: sig}
		lastU, lastBits, lastSignBits, lastSigner = u, append([]bool{}, bits...), append([]bool{}, signBits...), signer
		lastMsgOK = signAtt.HashTreeRoot(tree.GetHashFn()) == att.HashTreeRoot(tree.GetHashFn()) && signVersion == forkVersion && signGenesis == genesisRoot && corrupt != 11
		nbits := 0
		for _, b := range bits {
			if b {
				nbits++
			}
		}
		// ground truth of the signature clause: an aggregate over the message is valid for the
		// participating keys exactly when the multiset of keys that signed equals the multiset of the
		// store's committee keys at the marked positions (committees draw from a few keys, so two
		// different committees can coincide on a bitmap), and message, domain and bytes are untouched
		committeeKnown := storeComm != nil
		if committeeKnown {
			var verifier *lcCommittee
			for _, c := range lw.comms {
				if c.c == storeComm {
					verifier = c
				}
			}
			if verifier == nil {
				fatal2("lc: store committee not built by the harness")
			}
			want := make([]int, len(lw.keys))
			have := make([]int, len(lw.keys))
			for i := range bits {
				if bits[i] {
					want[verifier.keys[i]]++
				}
				if signBits[i] {
					have[signer.keys[i]]++
				}
			}
			same := true
			for k := range want {
				if want[k] != have[k] {
					same = false
				}
			}
			msgSame := signAtt.HashTreeRoot(tree.GetHashFn()) == att.HashTreeRoot(tree.GetHashFn()) && signVersion == forkVersion && signGenesis == genesisRoot
			sigOK = same && msgSame && corrupt != 11 && nbits > 0
		}
		// --- ground truth, clause by clause ---
		clauses := map[string]bool{
			"at least one participant":             nbits > 0,
			"signature slot not in the future":     cur >= sigSlot,
			"signature slot after attested slot":   sigSlot > attSlot,
			"attested slot not before finalized":   attSlot >= updFinSlot,
			"signature period fits the store":      sigPeriod == storePeriod || (st.NextSyncCommittee != nil && sigPeriod == storePeriod+1),
			"relevant":                             attSlot > finSlot || (st.NextSyncCommittee == nil && kind == 0 && attPeriod == storePeriod),
			"finality branch holds":                finProofOK,
			"next committee branch holds":          nscProofOK,
			"signature valid for the participants": sigOK && committeeKnown,
		}
		truth := true
		var falseClause string
		for _, k := range sortedKeys(clauses) {
			if !clauses[k] {
				truth = false
				if falseClause == "" {
					falseClause = k
				}
			}
		}
		// --- the client's verdict ---
		before := *st
		verr := func() (e error) {
			defer func() {
				if r := recover(); r != nil {
					e = fmt.Errorf("panic: %v", r)
					w.violate("C12", "panic", "verification panicked: %v (update: %s, %s)", r, desc, falseClause)
				}
			}()
			return lc.VerifyGenericUpdate(st, u, cur, genesisRoot, forkVersion)
		}()
		kindName := []string{"full", "finality", "optimistic"}[kind]
		w.op("update#%d %s att=%d sig=%d fin=%d (store fin=%d opt=%d, now=%d) part=%d %s -> verify err=%v; truth=%v %s", opi, kindName, attSlot, sigSlot, updFinSlot, finSlot, optSlot, cur, nbits, desc, verr, truth, falseClause)
		w.abstract("%s rel%d part%d c%d t%d ok=%v", kindName, op.n(1), op.n(2), corrupt, op.n(4), verr == nil)
		if verr == nil && !truth {
			w.violate("C12", "accepted-invalid", "a %s update passed verification although: not (%s) [%s; attested %d, signature %d, finalized %d, store finalized %d, current slot %d, %d participants]", kindName, falseClause, desc, attSlot, sigSlot, updFinSlot, finSlot, cur, nbits)
		}
		if verr != nil && truth {
			w.violate("C12", "rejected-valid", "an honest, timely %s update was rejected: %v [attested %d, signature %d, finalized %d, store finalized %d, current slot %d, %d participants]", kindName, verr, attSlot, sigSlot, updFinSlot, finSlot, cur, nbits)
		}
		if truth {
			w.probe("valid_update")
		} else {
			w.probe("invalid_" + falseClause)
		}
		if verr != nil {
			continue
		}
		// --- apply, then the store invariants ---
		lc.ApplyGenericUpdate(u)
		after := *st
		w.probe("applied")
		if after.FinalizedHeader.Slot < before.FinalizedHeader.Slot {
			w.violate("C12", "finalized-moved-back", "finalized header moved from slot %d back to %d", before.FinalizedHeader.Slot, after.FinalizedHeader.Slot)
		}
		if after.OptimisticHeader.Slot < before.OptimisticHeader.Slot {
			w.violate("C12", "optimistic-moved-back", "optimistic header moved from slot %d back to %d", before.OptimisticHeader.Slot, after.OptimisticHeader.Slot)
		}
		if after.OptimisticHeader.Slot < after.FinalizedHeader.Slot {
			w.violate("C12", "optimistic-behind-finalized", "optimistic header at slot %d is behind the finalized header at %d", after.OptimisticHeader.Slot, after.FinalizedHeader.Slot)
		}
		finChanged := after.FinalizedHeader != before.FinalizedHeader
		commChanged := after.CurrentSyncCommittee != before.CurrentSyncCommittee || after.NextSyncCommittee != before.NextSyncCommittee
		if (finChanged || commChanged) && nbits*3 < 512*2 {
			w.violate("C12", "changed-without-supermajority", "finalized header or committees changed on an update with %d of 512 participants", nbits)
		}
		if after.CurrentSyncCommittee != before.CurrentSyncCommittee {
			w.probe("committee_rotated")
			if after.CurrentSyncCommittee != before.NextSyncCommittee {
				w.violate("C12", "rotation", "the current committee was replaced by something other than the stored next committee")
			}
		}
		if finChanged {
			w.probe("finalized_advanced")
		}
		if after.OptimisticHeader != before.OptimisticHeader {
			w.probe("optimistic_advanced")
		}
	}
	w.res.Nontrivial = w.res.Probes["valid_update"] > 0
	w.finish()
}

func maxU(a, b uint64) uint64 {
	if a > b {
		return a
	}
	return b
}

func permN(r *prng, n int) []int {
	p := make([]int, n)
	for i := range p {
		p[i] = i
	}
	for i := n - 1; i > 0; i-- {
		j := r.intn(i + 1)
		p[i], p[j] = p[j], p[i]
	}
	return p
}
