package sim

import (
	"errors"
	"fmt"
	"io"
	"os"
	"path"
	"sort"
	"strings"
	"sync"
	"syscall"
	"time"

	"github.com/cockroachdb/errors/oserror"
	"github.com/cockroachdb/pebble/vfs"
)

// simDisk is the simulated disk under pebble: an in-memory vfs.FS that distinguishes
// what has been written from what is durable (file contents as of the last Sync of the
// file, directory entries as of the last Sync of the directory), numbers every mutating
// operation, can capture a crash image after any operation index, and can fail
// operations with injected errors.

type sdNode struct {
	data      []byte
	synced    []byte
	hasSynced bool
}

func (n *sdNode) clone() *sdNode {
	return &sdNode{data: append([]byte(nil), n.data...), synced: append([]byte(nil), n.synced...), hasSynced: n.hasSynced}
}

type diskImage struct {
	nsLog       []nsOp
	files       map[string]*sdNode
	durable     map[string]*sdNode
	dirs        map[string]bool
	durableDirs map[string]bool
	atOp        int
	opKind      string
}

var fslog = os.Getenv("VERIF_FSLOG") != ""

type simDisk struct {
	mu          sync.Mutex
	files       map[string]*sdNode
	durable     map[string]*sdNode
	dirs        map[string]bool
	durableDirs map[string]bool
	locks       map[string]bool
	ops         int
	opKinds     map[string]int
	crashAt     int // capture an image right after this op index (1-based); 0 = never
	image       *diskImage
	failAt      map[int]error // op index -> injected error (operation not performed)
	failed      []string
	fullAfter   int64 // ENOSPC once total bytes exceed this (0 = unlimited)
	// readFailIn > 0: the readFailIn-th next read of a table file (*.sst) fails once with an I/O error
	readFailIn int
	readFailed int
	opLog      []string
	keepLog    bool
	// namespace operations since the directory was last synced, in order (per simulated disk there
	// is one data directory): a crash keeps a prefix of them (journalled file systems order
	// directory operations; pebble relies on that)
	nsLog []nsOp
}

type nsOp struct {
	kind     string // create | remove | rename | link
	name, to string
	node     *sdNode
}

func newSimDisk() *simDisk {
	return &simDisk{
		files: map[string]*sdNode{}, durable: map[string]*sdNode{},
		dirs: map[string]bool{"/": true}, durableDirs: map[string]bool{"/": true},
		locks: map[string]bool{}, opKinds: map[string]int{}, failAt: map[int]error{},
	}
}

func clean(p string) string {
	p = path.Clean("/" + p)
	return p
}

// mut registers one mutating operation; returns an injected error if one is due.
// Caller holds d.mu.
func (d *simDisk) mut(kind, name string) error {
	d.ops++
	d.opKinds[kind]++
	if fslog {
		println("FSOP", d.ops, kind, name)
	}
	if d.keepLog {
		d.opLog = append(d.opLog, fmt.Sprintf("%d %s %s", d.ops, kind, name))
	}
	if err, ok := d.failAt[d.ops]; ok {
		d.failed = append(d.failed, fmt.Sprintf("%d %s %s: %v", d.ops, kind, name, err))
		return err
	}
	return nil
}

// after is called when a mutating op completed; captures the crash image if due.
func (d *simDisk) after(kind string) {
	if d.crashAt != 0 && d.ops == d.crashAt && d.image == nil {
		d.image = d.snapshot(kind)
	}
}

func (d *simDisk) snapshot(kind string) *diskImage {
	im := &diskImage{files: map[string]*sdNode{}, durable: map[string]*sdNode{}, dirs: map[string]bool{}, durableDirs: map[string]bool{}, atOp: d.ops, opKind: kind}
	seen := map[*sdNode]*sdNode{}
	cp := func(n *sdNode) *sdNode {
		if c, ok := seen[n]; ok {
			return c
		}
		c := n.clone()
		seen[n] = c
		return c
	}
	for k, v := range d.files {
		im.files[k] = cp(v)
	}
	for k, v := range d.durable {
		im.durable[k] = cp(v)
	}
	for k := range d.dirs {
		im.dirs[k] = true
	}
	for k := range d.durableDirs {
		im.durableDirs[k] = true
	}
	for _, o := range d.nsLog {
		c := o
		if o.node != nil {
			c.node = cp(o.node)
		}
		im.nsLog = append(im.nsLog, c)
	}
	return im
}

const (
	crashKeepAll      = "keep-all"
	crashDropUnsynced = "drop-unsynced"
	crashTorn         = "torn"
	crashLostDirents  = "lost-dirents"
)

// restore builds the disk a restarted process would see.
func (im *diskImage) restore(mode string, rng *prng) *simDisk {
	d := newSimDisk()
	put := func(name string, content []byte) {
		n := &sdNode{data: append([]byte(nil), content...), synced: append([]byte(nil), content...), hasSynced: true}
		d.files[name] = n
		d.durable[name] = n
	}
	switch mode {
	case crashKeepAll:
		for k := range im.dirs {
			d.dirs[k], d.durableDirs[k] = true, true
		}
		for k, n := range im.files {
			put(k, n.data)
		}
	case crashDropUnsynced:
		for k := range im.durableDirs {
			d.dirs[k], d.durableDirs[k] = true, true
		}
		for k, n := range im.durable {
			put(k, n.synced)
		}
	case crashLostDirents:
		for k := range im.durableDirs {
			d.dirs[k], d.durableDirs[k] = true, true
		}
		for k, n := range im.durable {
			put(k, n.data)
		}
	case crashTorn:
		for k := range im.dirs { // directories: keep current (pebble creates its dir once)
			d.dirs[k], d.durableDirs[k] = true, true
		}
		// namespace: the durable entries plus a prefix of the directory operations since the last
		// directory sync (ordered metadata, as journalled file systems give and pebble assumes)
		ns := map[string]*sdNode{}
		for k, n := range im.durable {
			ns[k] = n
		}
		cut := rng.intn(len(im.nsLog) + 1)
		for _, o := range im.nsLog[:cut] {
			switch o.kind {
			case "create":
				ns[o.name] = o.node
			case "remove":
				delete(ns, o.name)
			case "rename":
				delete(ns, o.name)
				ns[o.to] = o.node
			case "link":
				ns[o.to] = o.node
			}
		}
		keys := make([]string, 0, len(ns))
		for k := range ns {
			keys = append(keys, k)
		}
		sort.Strings(keys)
		for _, k := range keys {
			n := ns[k]
			// content: synced image overlaid sector-wise by a random subset of newer sectors
			old := n.synced
			neu := n.data
			if rng.chance(50) {
				// a short write: the bytes changed since the last sync (an append, or the head of a recycled
				// log file overwritten in place) reached the platter up to some byte, not only up to a
				// sector boundary; behind the cut the old content stands
				a := 0
				for a < len(neu) && a < len(old) && neu[a] == old[a] {
					a++
				}
				b := len(neu)
				for b > a && b <= len(old) && neu[b-1] == old[b-1] {
					b--
				}
				if a < b {
					cut := a + rng.intn(b-a+1)
					if rng.chance(60) {
						// more often than not only the tail is missing: the last, small records of a group
						// (a counter, a commit marker) are what a short write separates from the rest
						tail := b - a
						if tail > 300 {
							tail = 300
						}
						cut = b - rng.intn(tail+1)
					}
					if fslog {
						println("  TORN", k, "changed", a, b, "cut", cut, "oldlen", len(old), "newlen", len(neu))
					}
					out := append([]byte(nil), neu[:cut]...)
					if len(old) > cut {
						out = append(out, old[cut:]...)
					}
					put(k, out)
					continue
				}
			}
			out := append([]byte(nil), old...)
			const sector = 512
			for off := 0; off < len(neu); off += sector {
				end := off + sector
				if end > len(neu) {
					end = len(neu)
				}
				same := end <= len(old) && string(old[off:end]) == string(neu[off:end])
				if same {
					continue
				}
				if rng.chance(50) {
					if len(out) < end {
						out = append(out, make([]byte, end-len(out))...)
					}
					copy(out[off:end], neu[off:end])
				}
			}
			put(k, out)
		}
	default:
		panic("bad crash mode " + mode)
	}
	return d
}

// ---------- vfs.FS ----------

var _ vfs.FS = (*simDisk)(nil)

func notExist(op, name string) error {
	return &os.PathError{Op: op, Path: name, Err: oserror.ErrNotExist}
}

func (d *simDisk) Create(name string) (vfs.File, error) {
	name = clean(name)
	d.mu.Lock()
	defer d.mu.Unlock()
	if !d.dirs[path.Dir(name)] {
		return nil, notExist("create", name)
	}
	if err := d.mut("create", name); err != nil {
		return nil, err
	}
	n := &sdNode{}
	d.files[name] = n
	d.nsLog = append(d.nsLog, nsOp{kind: "create", name: name, node: n})
	d.after("create")
	return &sdFile{d: d, n: n, name: name, write: true}, nil
}

func (d *simDisk) Link(oldname, newname string) error {
	oldname, newname = clean(oldname), clean(newname)
	d.mu.Lock()
	defer d.mu.Unlock()
	n, ok := d.files[oldname]
	if !ok {
		return notExist("link", oldname)
	}
	if _, ok := d.files[newname]; ok {
		return &os.LinkError{Op: "link", Old: oldname, New: newname, Err: oserror.ErrExist}
	}
	if err := d.mut("link", newname); err != nil {
		return err
	}
	d.files[newname] = n
	d.nsLog = append(d.nsLog, nsOp{kind: "link", name: oldname, to: newname, node: n})
	d.after("link")
	return nil
}

func (d *simDisk) Open(name string, opts ...vfs.OpenOption) (vfs.File, error) {
	name = clean(name)
	d.mu.Lock()
	defer d.mu.Unlock()
	if d.dirs[name] {
		return &sdDir{d: d, name: name}, nil
	}
	n, ok := d.files[name]
	if !ok {
		return nil, notExist("open", name)
	}
	f := &sdFile{d: d, n: n, name: name}
	for _, o := range opts {
		o.Apply(f)
	}
	return f, nil
}

func (d *simDisk) OpenReadWrite(name string, opts ...vfs.OpenOption) (vfs.File, error) {
	name = clean(name)
	d.mu.Lock()
	defer d.mu.Unlock()
	n, ok := d.files[name]
	if !ok {
		if !d.dirs[path.Dir(name)] {
			return nil, notExist("open", name)
		}
		if err := d.mut("create", name); err != nil {
			return nil, err
		}
		n = &sdNode{}
		d.files[name] = n
		d.nsLog = append(d.nsLog, nsOp{kind: "create", name: name, node: n})
		d.after("create")
	}
	f := &sdFile{d: d, n: n, name: name, write: true}
	for _, o := range opts {
		o.Apply(f)
	}
	return f, nil
}

func (d *simDisk) OpenDir(name string) (vfs.File, error) {
	name = clean(name)
	d.mu.Lock()
	defer d.mu.Unlock()
	if !d.dirs[name] {
		return nil, notExist("open", name)
	}
	return &sdDir{d: d, name: name}, nil
}

func (d *simDisk) Remove(name string) error {
	name = clean(name)
	d.mu.Lock()
	defer d.mu.Unlock()
	if _, ok := d.files[name]; !ok {
		if d.dirs[name] {
			for k := range d.files {
				if strings.HasPrefix(k, name+"/") {
					return errors.New("directory not empty")
				}
			}
			if err := d.mut("rmdir", name); err != nil {
				return err
			}
			delete(d.dirs, name)
			d.after("rmdir")
			return nil
		}
		return notExist("remove", name)
	}
	if err := d.mut("remove", name); err != nil {
		return err
	}
	delete(d.files, name)
	d.nsLog = append(d.nsLog, nsOp{kind: "remove", name: name})
	d.after("remove")
	return nil
}

func (d *simDisk) RemoveAll(name string) error {
	name = clean(name)
	d.mu.Lock()
	defer d.mu.Unlock()
	if err := d.mut("removeall", name); err != nil {
		return err
	}
	for k := range d.files {
		if k == name || strings.HasPrefix(k, name+"/") {
			delete(d.files, k)
		}
	}
	for k := range d.dirs {
		if k == name || strings.HasPrefix(k, name+"/") {
			delete(d.dirs, k)
		}
	}
	d.after("removeall")
	return nil
}

func (d *simDisk) Rename(oldname, newname string) error {
	oldname, newname = clean(oldname), clean(newname)
	d.mu.Lock()
	defer d.mu.Unlock()
	n, ok := d.files[oldname]
	if !ok {
		return notExist("rename", oldname)
	}
	if err := d.mut("rename", newname); err != nil {
		return err
	}
	delete(d.files, oldname)
	d.files[newname] = n
	d.nsLog = append(d.nsLog, nsOp{kind: "rename", name: oldname, to: newname, node: n})
	d.after("rename")
	return nil
}

func (d *simDisk) ReuseForWrite(oldname, newname string) (vfs.File, error) {
	if err := d.Rename(oldname, newname); err != nil {
		return nil, err
	}
	newname = clean(newname)
	d.mu.Lock()
	defer d.mu.Unlock()
	n := d.files[newname]
	return &sdFile{d: d, n: n, name: newname, write: true}, nil
}

func (d *simDisk) MkdirAll(dir string, perm os.FileMode) error {
	dir = clean(dir)
	d.mu.Lock()
	defer d.mu.Unlock()
	if d.dirs[dir] {
		return nil
	}
	if err := d.mut("mkdir", dir); err != nil {
		return err
	}
	for p := dir; p != "/" && p != "."; p = path.Dir(p) {
		d.dirs[p] = true
		// directory creation is treated as durable at once (pebble creates its directory
		// once, before any content exists; not an interesting crash surface here)
		d.durableDirs[p] = true
	}
	d.after("mkdir")
	return nil
}

type sdLock struct {
	d    *simDisk
	name string
}

func (l *sdLock) Close() error {
	l.d.mu.Lock()
	defer l.d.mu.Unlock()
	delete(l.d.locks, l.name)
	return nil
}

func (d *simDisk) Lock(name string) (io.Closer, error) {
	name = clean(name)
	d.mu.Lock()
	defer d.mu.Unlock()
	if d.locks[name] {
		return nil, syscall.EAGAIN
	}
	if !d.dirs[path.Dir(name)] {
		return nil, notExist("lock", name)
	}
	d.locks[name] = true
	if _, ok := d.files[name]; !ok {
		d.files[name] = &sdNode{}
	}
	return &sdLock{d: d, name: name}, nil
}

func (d *simDisk) List(dir string) ([]string, error) {
	dir = clean(dir)
	d.mu.Lock()
	defer d.mu.Unlock()
	if !d.dirs[dir] {
		return nil, notExist("open", dir)
	}
	var out []string
	for k := range d.files {
		if path.Dir(k) == dir {
			out = append(out, path.Base(k))
		}
	}
	for k := range d.dirs {
		if k != "/" && path.Dir(k) == dir {
			out = append(out, path.Base(k))
		}
	}
	sort.Strings(out)
	return out, nil
}

type sdInfo struct {
	name string
	size int64
	dir  bool
}

func (i sdInfo) Name() string { return i.name }
func (i sdInfo) Size() int64  { return i.size }
func (i sdInfo) Mode() os.FileMode {
	if i.dir {
		return os.ModeDir | 0o755
	}
	return 0o644
}
func (i sdInfo) ModTime() time.Time { return time.Time{} }
func (i sdInfo) IsDir() bool        { return i.dir }
func (i sdInfo) Sys() any           { return nil }

func (d *simDisk) Stat(name string) (os.FileInfo, error) {
	name = clean(name)
	d.mu.Lock()
	defer d.mu.Unlock()
	if d.dirs[name] {
		return sdInfo{name: path.Base(name), dir: true}, nil
	}
	n, ok := d.files[name]
	if !ok {
		return nil, notExist("stat", name)
	}
	return sdInfo{name: path.Base(name), size: int64(len(n.data))}, nil
}

func (*simDisk) PathBase(p string) string       { return path.Base(p) }
func (*simDisk) PathJoin(elem ...string) string { return path.Join(elem...) }
func (*simDisk) PathDir(p string) string        { return path.Dir(p) }
func (d *simDisk) GetDiskUsage(string) (vfs.DiskUsage, error) {
	return vfs.DiskUsage{AvailBytes: 1 << 40, TotalBytes: 1 << 41, UsedBytes: uint64(d.totalBytes())}, nil
}

func (d *simDisk) totalBytes() int64 {
	var t int64
	seen := map[*sdNode]bool{}
	for _, n := range d.files {
		if !seen[n] {
			seen[n] = true
			t += int64(len(n.data))
		}
	}
	return t
}

// ---------- files ----------

type sdFile struct {
	d     *simDisk
	n     *sdNode
	name  string
	rpos  int
	wpos  int
	write bool
}

func (f *sdFile) Close() error { return nil }

// readFault (d.mu held): true when this read of a table file is the one chosen to fail.
func (f *sdFile) readFault() bool {
	if f.d.readFailIn == 0 || !strings.HasSuffix(f.name, ".sst") {
		return false
	}
	f.d.readFailIn--
	if f.d.readFailIn != 0 {
		return false
	}
	f.d.readFailed++
	return true
}

var errSimRead = errors.New("simdisk: injected read error: input/output error")

func (f *sdFile) Read(p []byte) (int, error) {
	f.d.mu.Lock()
	defer f.d.mu.Unlock()
	if f.readFault() {
		return 0, errSimRead
	}
	if f.rpos >= len(f.n.data) {
		return 0, io.EOF
	}
	n := copy(p, f.n.data[f.rpos:])
	f.rpos += n
	return n, nil
}

func (f *sdFile) ReadAt(p []byte, off int64) (int, error) {
	f.d.mu.Lock()
	defer f.d.mu.Unlock()
	if f.readFault() {
		return 0, errSimRead
	}
	if off >= int64(len(f.n.data)) {
		return 0, io.EOF
	}
	n := copy(p, f.n.data[off:])
	if n < len(p) {
		return n, io.EOF
	}
	return n, nil
}

func (f *sdFile) Write(p []byte) (int, error) {
	f.d.mu.Lock()
	defer f.d.mu.Unlock()
	if err := f.d.mut("write", f.name); err != nil {
		return 0, err
	}
	if fslog {
		println("  write bytes", len(p), "at", f.wpos)
	}
	if f.d.fullAfter > 0 && f.d.totalBytes()+int64(len(p)) > f.d.fullAfter {
		f.d.failed = append(f.d.failed, fmt.Sprintf("%d write %s: ENOSPC", f.d.ops, f.name))
		return 0, syscall.ENOSPC
	}
	// writes go to the handle's own position: 0 for a fresh or recycled (ReuseForWrite)
	// file, so WAL recycling overwrites old bytes in place and keeps the old tail.
	end := f.wpos + len(p)
	if end > len(f.n.data) {
		f.n.data = append(f.n.data, make([]byte, end-len(f.n.data))...)
	}
	copy(f.n.data[f.wpos:], p)
	f.wpos = end
	f.d.after("write")
	return len(p), nil
}

func (f *sdFile) WriteAt(p []byte, off int64) (int, error) {
	f.d.mu.Lock()
	defer f.d.mu.Unlock()
	if err := f.d.mut("writeat", f.name); err != nil {
		return 0, err
	}
	end := int(off) + len(p)
	if end > len(f.n.data) {
		f.n.data = append(f.n.data, make([]byte, end-len(f.n.data))...)
	}
	copy(f.n.data[off:], p)
	f.d.after("writeat")
	return len(p), nil
}

func (f *sdFile) Preallocate(offset, length int64) error { return nil }
func (f *sdFile) Prefetch(offset, length int64) error    { return nil }
func (f *sdFile) Fd() uintptr                            { return vfs.InvalidFd }

func (f *sdFile) Stat() (os.FileInfo, error) {
	f.d.mu.Lock()
	defer f.d.mu.Unlock()
	return sdInfo{name: path.Base(f.name), size: int64(len(f.n.data))}, nil
}

func (f *sdFile) Sync() error {
	f.d.mu.Lock()
	defer f.d.mu.Unlock()
	if err := f.d.mut("sync", f.name); err != nil {
		return err
	}
	f.n.synced = append(f.n.synced[:0], f.n.data...)
	f.n.hasSynced = true
	f.d.after("sync")
	return nil
}

func (f *sdFile) SyncData() error { return f.Sync() }

func (f *sdFile) SyncTo(length int64) (bool, error) {
	return true, f.Sync()
}

// ---------- directories ----------

type sdDir struct {
	d    *simDisk
	name string
}

func (f *sdDir) Close() error                           { return nil }
func (f *sdDir) Read(p []byte) (int, error)             { return 0, errors.New("is a directory") }
func (f *sdDir) ReadAt(p []byte, o int64) (int, error)  { return 0, errors.New("is a directory") }
func (f *sdDir) Write(p []byte) (int, error)            { return 0, errors.New("is a directory") }
func (f *sdDir) WriteAt(p []byte, o int64) (int, error) { return 0, errors.New("is a directory") }
func (f *sdDir) Preallocate(offset, length int64) error { return nil }
func (f *sdDir) Prefetch(offset, length int64) error    { return nil }
func (f *sdDir) Fd() uintptr                            { return vfs.InvalidFd }
func (f *sdDir) Stat() (os.FileInfo, error)             { return sdInfo{name: path.Base(f.name), dir: true}, nil }
func (f *sdDir) SyncData() error                        { return f.Sync() }
func (f *sdDir) SyncTo(int64) (bool, error)             { return true, f.Sync() }

func (f *sdDir) Sync() error {
	d := f.d
	d.mu.Lock()
	defer d.mu.Unlock()
	if err := d.mut("syncdir", f.name); err != nil {
		return err
	}
	for k := range d.durable {
		if path.Dir(k) == f.name {
			if _, ok := d.files[k]; !ok {
				delete(d.durable, k)
			}
		}
	}
	for k, n := range d.files {
		if path.Dir(k) == f.name {
			d.durable[k] = n
		}
	}
	d.nsLog = nil
	d.after("syncdir")
	return nil
}
