package sim

import (
	"bytes"
	"crypto/ecdsa"
	"crypto/sha256"
	"encoding/json"
	"fmt"
	"github.com/ethereum/go-ethereum/crypto"
	"math/big"
	"net"
	"os"
	"sort"
	"strconv"
	"time"

	"github.com/ethereum/go-ethereum/p2p/enode"
	"github.com/ethereum/go-ethereum/rlp"
	"github.com/zen-eth/shisui/portalwire"
	pingext "github.com/zen-eth/shisui/portalwire/ping_ext"
)

// C20 — gossip goes to at most eight covered peers and never back to the source.

func init() { engines["c20"] = runC20 }

var c20Nets = []portalwire.ProtocolId{portalwire.History, portalwire.State, portalwire.Beacon}

// payload types each network accepts for radius reports
var c20Supported = map[string]map[uint16]bool{
	"history": {0: true, 2: true},
	"state":   {0: true, 1: true},
	"beacon":  {0: true, 1: true},
}

func genC20(r *prng) *plan {
	p := &plan{Cfg: map[string]int64{}}
	p.Cfg["net"] = int64(r.intn(3))
	p.Cfg["fake"] = int64([]int{0, 0, 2, 6, 20, 40, 90, 150}[r.intn(8)])
	np := []int{0, 1, 3, 6, 10, 14}[r.intn(6)]
	p.Cfg["np"] = int64(np)
	p.Cfg["ncontent"] = int64(1 + r.intn(2))
	n := 3 + r.intn(14)
	for i := 0; i < n; i++ {
		switch {
		case np > 0 && r.chance(8):
			// the operator hands the node a peer's record again (AddEnr RPC) after the peer has reported
			p.Ops = append(p.Ops, opSpec{K: "readd", N: []int64{int64(r.intn(np))}})
		case np > 0 && r.chance(65):
			p.Ops = append(p.Ops, opSpec{K: "report", N: []int64{int64(r.intn(np)), int64(r.intn(2)), int64(r.intn(4)), int64(r.intn(8)), int64(r.intn(2)), int64(r.intn(5))}})
		default:
			p.Ops = append(p.Ops, opSpec{K: "gossip", N: []int64{int64(r.intn(2)), int64(r.intn(4)), int64(1 + r.intn(3))}})
		}
	}
	p.Ops = append(p.Ops, opSpec{K: "gossip", N: []int64{0, int64(r.intn(4)), int64(1 + r.intn(3))}})
	if r.chance(35) {
		p.Ops = append(p.Ops, opSpec{K: "pargossip", N: []int64{int64(r.intn(3)), int64(1 + r.intn(1<<30))}})
	}
	if r.chance(12) {
		// tables beyond 160 entries, up to all 17 buckets full (272): keys searched once at set-up time
		p.Cfg["big"] = int64([]int{200, 240, 272}[r.intn(3)])
	}
	return p
}

// c20BigKeys: the pre-computed keys for the low buckets of one fixed victim (see cmd/c20keys), or nil.
var c20KeysLoaded bool
var c20KeysVictim *ecdsa.PrivateKey
var c20KeysByDist map[int][]*ecdsa.PrivateKey

func c20BigKeys() (*ecdsa.PrivateKey, map[int][]*ecdsa.PrivateKey) {
	if !c20KeysLoaded {
		c20KeysLoaded = true
		c20KeysVictim, c20KeysByDist = c20ReadKeys()
	}
	return c20KeysVictim, c20KeysByDist
}

func c20ReadKeys() (victim *ecdsa.PrivateKey, byDist map[int][]*ecdsa.PrivateKey) {
	dir := os.Getenv("VERIF_DIR")
	if dir == "" {
		dir = "/verif"
	}
	b, err := os.ReadFile(dir + "/.build/c20keys.json")
	if err != nil {
		return nil, nil
	}
	var f struct {
		Victim string              `json:"victim"`
		Keys   map[string][]string `json:"keys"`
	}
	if json.Unmarshal(b, &f) != nil {
		return nil, nil
	}
	victim, err = crypto.HexToECDSA(f.Victim)
	if err != nil {
		return nil, nil
	}
	byDist = map[int][]*ecdsa.PrivateKey{}
	for ds, ks := range f.Keys {
		d, _ := strconv.Atoi(ds)
		for _, h := range ks {
			if k, err := crypto.HexToECDSA(h); err == nil {
				byDist[d] = append(byDist[d], k)
			}
		}
	}
	return victim, byDist
}

func encRadiusPayload(ptype uint16, radius *big.Int) []byte {
	var rb [32]byte
	be := radius.Bytes()
	for i := range be { // SSZ uint256 is little-endian
		rb[i] = be[len(be)-1-i]
	}
	switch ptype {
	case 0:
		pl := pingext.NewClientInfoAndCapabilitiesPayload(rb[:], []uint16{0, 1, 2, 65535})
		b, _ := pl.MarshalSSZ()
		return b
	case 1:
		pl := pingext.NewBasicRadiusPayload(rb[:])
		b, _ := pl.MarshalSSZ()
		return b
	case 2:
		pl := pingext.NewHistoryRadiusPayload(rb[:], 3)
		b, _ := pl.MarshalSSZ()
		return b
	}
	return pingext.GetErrorPayloadBytes(0)
}

var c20Ptypes = []uint16{0, 1, 2, 65535}

type c20peer struct {
	node       *enode.Node
	pup        *puppet
	radius     *big.Int // last reported radius per the harness model; nil = unknown
	offers     [][][]byte
	pongSet    bool
	seqBump    uint64 // reports claim an ENR sequence number this much above the record the node holds
	answerEnr  bool   // whether the FINDNODES(0) the node then sends is answered (with the unchanged record)
	pongType   uint16
	pongRadius *big.Int
	// unsure: what the node records for this peer is no longer determined by what the harness saw (the peer was
	// handed to the node while it could not enter the table, or left the table after a report): it is judged neither
	// as a target nor as a candidate until it reports again while it is a table entry
	unsure bool
}

func runC20(seed uint64) {
	p := loadOrGenPlan("c20", seed, genC20)
	w := newWorld(seed, "C20", "c20")
	w.res.Class = "fault-free"
	netID := c20Nets[p.cfg("net")%3]
	supported := c20Supported[netID.Name()]
	vkey := detKey(seed, 1)
	var bigKeys map[int][]*ecdsa.PrivateKey
	if p.cfg("big") > 0 {
		if vk, ks := c20BigKeys(); vk != nil {
			vkey, bigKeys = vk, ks
			w.probe("big_table_class")
		}
	}
	V := w.newBase(nodeCfg{name: "V", port: 9001, key: vkey, versions: []uint8{0, 1}, maxUtp: 50, capacityMB: 100})
	vp := V.newPlainProto(netID)
	peers := map[enode.ID]*c20peer{}
	// contents
	var ckeys [][]byte
	var cids []enode.ID
	for i := 0; i < int(p.cfg("ncontent")); i++ {
		k := append([]byte{0x01}, newPrng(seed*31+uint64(i)).bytes(32)...)
		ckeys = append(ckeys, k)
		cids = append(cids, enode.ID(sha256.Sum256(k)))
	}
	// fake nodes: signed records without a live peer; AddEnr records the maximum radius for them
	nfake := int(p.cfg("fake"))
	if bigKeys != nil {
		// buckets 256 down to 240, 16 each, until the requested size is reached
		i := 0
		for d := 256; d >= 240 && i < int(p.cfg("big")); d-- {
			for _, k := range bigKeys[d] {
				if i >= int(p.cfg("big")) {
					break
				}
				n := makeENR(k, net.IP{127, 0, 0, 1}, 30000+i, 1, 0)
				vp.p.AddEnr(n)
				peers[n.ID()] = &c20peer{node: n, radius: new(big.Int).Set(maxU256)}
				i++
			}
		}
		nfake = 0
	}
	if nfake > 0 {
		want := map[int]int{}
		left := nfake
		for d := 256; d >= 247 && left > 0; d-- {
			n := 16
			if left < n {
				n = left
			}
			want[d] = n
			left -= n
		}
		ks := keysAtDistance(seed, V.id(), want, 1000)
		i := 0
		for d := 256; d >= 247; d-- {
			for _, k := range ks[d] {
				n := makeENR(k, net.IP{127, 0, 0, 1}, 30000+i, 1, 0)
				vp.p.AddEnr(n)
				peers[n.ID()] = &c20peer{node: n, radius: new(big.Int).Set(maxU256)}
				i++
			}
		}
	}
	// puppets enter by inbound contact (radius unknown until they report one)
	np := int(p.cfg("np"))
	var pups []*c20peer
	for i := 0; i < np; i++ {
		P := w.newPuppet(nodeCfg{name: fmt.Sprintf("P%d", i), port: 9100 + i, key: detKey(seed, 10+i), versions: []uint8{0, 1}, maxUtp: 50})
		cp := &c20peer{node: P.self(), pup: P}
		pups = append(pups, cp)
		peers[P.id()] = cp
		pongType, pongRadius := uint16(0), new(big.Int).Set(maxU256)
		cp.pup.handlers[string(netID)] = func(from *enode.Node, addr *net.UDPAddr, msg []byte) []byte {
			if len(msg) == 0 {
				return nil
			}
			switch msg[0] {
			case portalwire.PING:
				if cp.pongSet {
					pongType, pongRadius = cp.pongType, cp.pongRadius
					return encPong(P.self().Seq()+cp.seqBump, pongType, encRadiusPayload(pongType, pongRadius))
				}
				if cp.radius != nil {
					// liveness ping of the table: re-report the current radius (keeps the node in the table)
					return encPong(P.self().Seq(), 0, encRadiusPayload(0, cp.radius))
				}
				return nil // a node that never reported a radius cannot answer without reporting one
			case portalwire.FINDNODES:
				// the node asks for the record behind a higher sequence number
				if cp.answerEnr {
					rec, _ := rlp.EncodeToBytes(P.self().Record())
					return append([]byte{portalwire.NODES, 1, 5, 0, 0, 0}, sszLists([][]byte{rec})...)
				}
				return nil
			case portalwire.OFFER:
				ks, err := decOfferKeys(msg)
				if err == nil {
					cp.offers = append(cp.offers, ks)
				}
				all := make([]bool, len(ks))
				return encAccept(1, 0, all) // decline everything: the transfer is not the subject
			}
			return nil
		}
		// first contact: a FINDNODES request makes V add the puppet as an inbound node
		w.call("contact", 5*time.Second, func() error {
			_, e := P.talk(V.self(), netID, encFindNodes([]uint16{256}))
			return e
		})
	}
	w.runFor(50 * time.Millisecond)

	inTable := func(id enode.ID) bool {
		for _, b := range vp.p.VerifTable().Nodes() {
			for _, bn := range b {
				if bn.Node.ID() == id {
					return true
				}
			}
		}
		return false
	}
	inTableOrRepl := func(id enode.ID) bool {
		if inTable(id) {
			return true
		}
		for _, b := range vp.p.VerifTable().VerifReplacements() {
			for _, n := range b {
				if n.ID() == id {
					return true
				}
			}
		}
		return false
	}

	for opi, op := range p.Ops {
		switch op.K {
		case "report":
			cp := pups[int(op.n(0))%len(pups)]
			via := op.n(1)
			ptype := c20Ptypes[int(op.n(2))%4]
			cid := cids[int(op.n(4))%len(cids)]
			d := xorBE(cp.node.ID(), cid[:])
			rad := radiusFor(op.n(3), d)
			known := inTableOrRepl(cp.node.ID())
			var err error
			// from here until the verdict the puppet's radius IS the one being reported: a liveness ping of
			// the table that lands in this window must not re-report the previous one
			cp.pongSet, cp.pongType, cp.pongRadius = true, ptype, rad
			// ENR sequence stories: the report claims a newer record than the node holds; the node asks for
			// it and the request is answered, or fails. Either way the radius in the report is the latest.
			cp.seqBump, cp.answerEnr = 0, true
			settle := 20 * time.Millisecond
			switch op.n(5) {
			case 3:
				cp.seqBump, settle = 1+uint64(op.n(3)), 200*time.Millisecond
			case 4:
				cp.seqBump, cp.answerEnr, settle = 1+uint64(op.n(3)), false, 3*time.Second
				w.fault("record_request_unanswered")
			}
			if cp.seqBump > 0 {
				w.probe(fmt.Sprintf("report_newer_seq_answered_%v", cp.answerEnr))
			}
			if via == 0 {
				_, err = w.call("ping", 5*time.Second, func() error {
					_, e := cp.pup.talk(V.self(), netID, encPing(cp.pup.self().Seq()+cp.seqBump, ptype, encRadiusPayload(ptype, rad)))
					return e
				})
				w.runFor(settle) // ping processing is asynchronous
			} else {
				_, err = w.call("vping", 5*time.Second, func() error {
					_, e := vp.api.Ping(cp.pup.enr(), nil, nil)
					return e
				})
				w.runFor(settle)
			}
			cp.seqBump, cp.answerEnr = 0, true
			_ = known
			// both paths (re)add the node before looking it up: what matters is membership afterwards
			counted := supported[ptype] && inTableOrRepl(cp.node.ID())
			if counted && err != nil {
				// the exchange failed half-way: accept whichever of old/new the node has
				if got, has := vp.p.VerifRadiusOf(cp.node.ID()); has {
					want := make([]byte, 32)
					be := rad.Bytes()
					for i := range be {
						want[i] = be[len(be)-1-i]
					}
					counted = bytes.Equal(got, want)
				} else {
					counted = false
				}
			}
			if !counted && supported[ptype] {
				// membership at the instant the report was processed is not observable (the entry may have
				// been dropped a moment later): if the node holds exactly the radius just reported in a
				// supported payload type, the report was counted
				if got, has := vp.p.VerifRadiusOf(cp.node.ID()); has {
					want := make([]byte, 32)
					be := rad.Bytes()
					for i := range be {
						want[i] = be[len(be)-1-i]
					}
					if bytes.Equal(got, want) {
						counted = true
					}
				}
			}
			cp.pongSet = false
			if counted {
				cp.radius = rad
				cp.unsure = false
				w.probe(fmt.Sprintf("report_via%d_type%d", via, ptype))
			} else {
				w.probe("report_not_counted")
			}
			w.op("report#%d %s via=%s type=%d radius=%x counted=%v err=%v", opi, cp.pup.cfg.name, []string{"ping", "pong"}[via], ptype, rad, counted, err != nil)
			w.abstract("report via%d t%d m%d %v", via, ptype, op.n(3), counted)
			// cross-check the model with the node's cache
			got, has := vp.p.VerifRadiusOf(cp.node.ID())
			if cp.radius == nil && has {
				w.violate("C20", "radius-model", "the node records a radius for %s although it never reported one in a supported payload type", cp.pup.cfg.name)
			}
			if cp.radius != nil {
				want := make([]byte, 32)
				be := cp.radius.Bytes()
				for i := range be {
					want[i] = be[len(be)-1-i]
				}
				if !has || !bytes.Equal(got, want) {
					w.violate("C20", "radius-not-latest", "%s last reported radius %x (via %s, payload type %d); the node records %x", cp.pup.cfg.name, cp.radius, []string{"ping", "pong"}[via], ptype, got)
				}
			}
		case "readd":
			cp := pups[int(op.n(0))%len(pups)]
			was := inTable(cp.node.ID())
			vp.p.AddEnr(cp.pup.self())
			w.runFor(5 * time.Millisecond)
			switch {
			case was:
				// already an entry: nothing is added, what the peer reported stands
				w.probe("readd_existing_entry")
			case inTable(cp.node.ID()):
				// now an entry. If the operator's call made it one, the node records the maximum radius until the
				// peer reports. It may also have become one by promotion from the replacement list a moment later
				// (the call itself found it there and added nothing): then the node records nothing for it. Which
				// of the two happened is not observable from outside; the model follows the node if it records
				// exactly the maximum, and otherwise stops judging this peer until it reports as an entry.
				maxLE := bytes.Repeat([]byte{0xff}, 32)
				if got, has := vp.p.VerifRadiusOf(cp.node.ID()); has && bytes.Equal(got, maxLE) {
					cp.radius = new(big.Int).Set(maxU256)
					cp.unsure = false
					w.probe("readd_new_entry")
				} else {
					cp.unsure = true
					w.probe("readd_entry_by_promotion")
				}
			default:
				// the record could not enter the table (full bucket): the peer had left the table earlier, and
				// what the node still records for it is its own business until it is an entry again
				cp.unsure = true
				w.probe("readd_not_added")
			}
			w.op("readd#%d %s (was in table: %v)", opi, cp.pup.cfg.name, was)
			w.abstract("readd %v", was)
			got, has := vp.p.VerifRadiusOf(cp.node.ID())
			if cp.radius != nil && !cp.unsure {
				want := make([]byte, 32)
				be := cp.radius.Bytes()
				for i := range be {
					want[i] = be[len(be)-1-i]
				}
				if !has || !bytes.Equal(got, want) {
					w.violate("C20", "radius-not-latest", "%s last reported radius %x; after its record was handed to the node again (AddEnr) the node records %x", cp.pup.cfg.name, cp.radius, got)
				}
			}
		case "pargossip":
			// several gossip calls at the same instant (each content element that passes validation starts
			// one on its own goroutine), interleaved statement by statement by the seeded yield scheduler
			ys := newYsched(mutexesOf(vp.p))
			portalwire.VerifGossipYieldHook = ys.yield
			var table []*enode.Node
			for _, b := range vp.p.VerifTable().Nodes() {
				for _, bn := range b {
					table = append(table, bn.Node)
				}
			}
			n := 2 + int(op.n(0))%3
			res := make([][]*enode.Node, n)
			var fns []func()
			for i := 0; i < n; i++ {
				ci := i % len(cids)
				fns = append(fns, func() {
					res[i], _ = vp.p.GossipAndReturnPeers(nil, [][]byte{ckeys[ci]}, [][]byte{[]byte(fmt.Sprintf("content-par-%d", i))})
				})
			}
			sw, stuck := ys.run(newPrng(uint64(op.n(1))), fns)
			portalwire.VerifGossipYieldHook = nil
			if stuck {
				w.violate("C20", "gossip-error", "concurrent gossip calls did not return")
			}
			for i := 0; i < n; i++ {
				cid := cids[i%len(cids)]
				for _, t := range res[i] {
					cp := peers[t.ID()]
					switch {
					case cp == nil || !inTableSnapshot(table, t.ID()):
						w.violate("C20", "target-not-in-table", "one of %d concurrent gossip calls: target %s is not a routing table node", n, t.ID().TerminalString())
					case cp.radius == nil:
						w.violate("C20", "unknown-radius-target", "one of %d concurrent gossip calls: target %s never reported a radius", n, t.ID().TerminalString())
					case xorBE(cp.node.ID(), cid[:]).Cmp(cp.radius) >= 0:
						w.violate("C20", "uncovered-target", "one of %d concurrent gossip calls: target %s: distance %x is not below its last reported radius %x", n, t.ID().TerminalString(), xorBE(t.ID(), cid[:]), cp.radius)
					}
				}
			}
			w.runFor(1 * time.Second)
			w.op("pargossip: %d gossip calls at once under the yield scheduler (%d switches)", n, sw)
			w.abstract("pargossip %d", n)
			w.probe("concurrent_gossip_calls")
		case "gossip":
			ci := int(op.n(0)) % len(cids)
			cid := cids[ci]
			var src *enode.ID
			srcName := "nil"
			switch op.n(1) {
			case 1:
				if len(pups) > 0 {
					id := pups[opi%len(pups)].node.ID()
					src = &id
					srcName = "puppet-in-table"
				}
			case 2:
				id := enode.ID(sha256.Sum256([]byte{byte(opi)}))
				src = &id
				srcName = "not-in-table"
			case 3:
				// the closest covered node as source: the most tempting wrong target
				var best *c20peer
				for _, cp := range peers {
					if cp.radius != nil && inTable(cp.node.ID()) && (best == nil || enode.LogDist(cp.node.ID(), cid) < enode.LogDist(best.node.ID(), cid)) {
						best = cp
					}
				}
				if best != nil {
					id := best.node.ID()
					src = &id
					srcName = "closest-covered"
				}
			}
			nb := int(op.n(2))
			var bkeys, bvals [][]byte
			bkeys = append(bkeys, ckeys[ci])
			bvals = append(bvals, []byte("content-0"))
			for i := 1; i < nb; i++ {
				bkeys = append(bkeys, append([]byte{0x01}, newPrng(seed+uint64(opi*10+i)).bytes(32)...))
				bvals = append(bvals, []byte(fmt.Sprintf("content-%d", i)))
			}
			for _, cp := range pups {
				cp.offers = nil
			}
			// table snapshot and the 32 nearest (tie-tolerant)
			var table []*enode.Node
			for _, b := range vp.p.VerifTable().Nodes() {
				for _, bn := range b {
					table = append(table, bn.Node)
				}
			}
			dists := make([]int, 0, len(table))
			for _, n := range table {
				dists = append(dists, enode.LogDist(n.ID(), cid))
			}
			sort.Ints(dists)
			cut := 257
			if len(dists) > 32 {
				cut = dists[31] // nodes with logdist <= cut may be among the 32 nearest
			}
			targets, err := vp.p.GossipAndReturnPeers(src, bkeys, bvals)
			w.op("gossip#%d content%d batch=%d src=%s table=%d -> %d targets err=%v", opi, ci, nb, srcName, len(table), len(targets), err)
			if err != nil {
				w.violate("C20", "gossip-error", "gossip failed: %v", err)
				continue
			}
			sel := map[enode.ID]bool{}
			for _, n := range targets {
				if sel[n.ID()] {
					w.violate("C20", "duplicate-target", "a node was selected twice")
				}
				sel[n.ID()] = true
			}
			if len(targets) > 8 {
				w.violate("C20", "too-many-targets", "%d targets selected, at most 8 allowed", len(targets))
			}
			covered := func(cp *c20peer) bool {
				return cp.radius != nil && xorBE(cp.node.ID(), cid[:]).Cmp(cp.radius) < 0
			}
			for _, n := range targets {
				cp := peers[n.ID()]
				if src != nil && n.ID() == *src {
					w.violate("C20", "sent-to-source", "the content was gossiped back to the node it came from")
				}
				if cp == nil || !inTableSnapshot(table, n.ID()) {
					w.violate("C20", "target-not-in-table", "target %s is not a routing table node", n.ID().TerminalString())
					continue
				}
				if cp.unsure {
					continue
				}
				if cp.radius == nil {
					w.violate("C20", "unknown-radius-target", "target %s never reported a radius", n.ID().TerminalString())
					continue
				}
				if !covered(cp) {
					w.violate("C20", "uncovered-target", "target %s: distance %x is not below its last reported radius %x", n.ID().TerminalString(), xorBE(n.ID(), cid[:]), cp.radius)
				}
				if enode.LogDist(n.ID(), cid) > cut {
					w.violate("C20", "not-among-32-nearest", "target at log-distance %d, but 32 table nodes are at log-distance <= %d", enode.LogDist(n.ID(), cid), cut)
				}
			}
			// candidates that certainly are among the 32 nearest (strictly below the cut, or table <= 32)
			var sure []*c20peer
			for _, n := range table {
				cp := peers[n.ID()]
				if cp == nil || cp.unsure || !covered(cp) || (src != nil && n.ID() == *src) {
					continue
				}
				if len(table) <= 32 || enode.LogDist(n.ID(), cid) < cut {
					sure = append(sure, cp)
				}
			}
			wantN := len(sure)
			if wantN > 8 {
				wantN = 8
			}
			if len(targets) < wantN {
				w.violate("C20", "too-few-targets", "%d covered nodes are certainly among the 32 nearest, only %d targets selected", len(sure), len(targets))
			}
			// the four closest: every unselected sure candidate needs 4 selected nodes at least as close
			for _, cp := range sure {
				if sel[cp.node.ID()] {
					continue
				}
				du := enode.LogDist(cp.node.ID(), cid)
				closer := 0
				for _, n := range targets {
					if enode.LogDist(n.ID(), cid) <= du {
						closer++
					}
				}
				if closer < 4 {
					w.violate("C20", "closest-four", "covered node at log-distance %d was skipped although only %d selected targets are at least as close", du, closer)
					break
				}
			}
			if len(sure) > 8 {
				w.probe("more_than_8_covered")
			}
			if len(table) > 32 {
				w.probe("table_over_32")
			}
			w.abstract("gossip t=%d sel=%d sure=%d src=%s", len(table)/16, len(targets), wantN, srcName)
			// the offers puppets actually receive: whole batch, only selected ones, never the source
			w.runFor(1 * time.Second)
			for _, cp := range pups {
				got := len(cp.offers)
				if sel[cp.node.ID()] {
					if got == 0 {
						w.violate("C20", "offer-not-sent", "%s was selected but received no OFFER within 1 s", cp.pup.cfg.name)
						continue
					}
					ks := cp.offers[0]
					same := len(ks) == len(bkeys)
					for i := range ks {
						if same && !bytes.Equal(ks[i], bkeys[i]) {
							same = false
						}
					}
					if !same {
						w.violate("C20", "partial-batch", "%s was offered %d keys, the batch has %d", cp.pup.cfg.name, len(ks), len(bkeys))
					}
					w.probe("offer_seen")
				} else if got > 0 {
					if src != nil && cp.node.ID() == *src {
						w.violate("C20", "sent-to-source", "the source received an OFFER for its own content")
					} else {
						w.violate("C20", "offer-to-unselected", "%s was not among the returned targets but received an OFFER", cp.pup.cfg.name)
					}
				}
			}
		}
	}
	w.res.Nontrivial = true
	w.finish()
}

func inTableSnapshot(table []*enode.Node, id enode.ID) bool {
	for _, n := range table {
		if n.ID() == id {
			return true
		}
	}
	return false
}
