package sim

import (
	"fmt"
	"runtime/debug"
	"time"

	"github.com/cockroachdb/pebble/vfs"
	"github.com/ethereum/go-ethereum/log"
	"github.com/ethereum/go-ethereum/rpc"
	"github.com/holiman/uint256"
	zcommon "github.com/protolambda/zrnt/eth2/beacon/common"
	"github.com/protolambda/zrnt/eth2/configs"
	"github.com/zen-eth/shisui/beacon"
	"github.com/zen-eth/shisui/history"
	"github.com/zen-eth/shisui/portalwire"
	"github.com/zen-eth/shisui/state"
	"github.com/zen-eth/shisui/storage"
	spebble "github.com/zen-eth/shisui/storage/pebble"
	"github.com/zen-eth/shisui/validation"
)

// fullNode mirrors portal.NewNode (portal/node.go) by hand: shared discv5 + uTP, in-proc RPC
// server, history + beacon + state networks with their real storage adapters and validators.
// The only differences: the simulated socket, pebble on MemFS, and harness decorators at the
// ContentStorage and Validator interfaces that record (and re-raise) panics.

type panicRec struct {
	where string
	val   any
	stack string
}

type guardStore struct {
	inner  storage.ContentStorage
	name   string
	rec    *[]panicRec
	radius *uint256.Int
	puts   []putRec
}

type putRec struct {
	key, val []byte
	err      error
}

func (g *guardStore) guard(op string) {
	if r := recover(); r != nil {
		*g.rec = append(*g.rec, panicRec{where: g.name + " storage " + op, val: r, stack: string(debug.Stack())})
		panic(r)
	}
}
func (g *guardStore) Get(k, id []byte) ([]byte, error) {
	defer g.guard("Get")
	return g.inner.Get(k, id)
}
func (g *guardStore) Put(k, id, v []byte) (err error) {
	defer g.guard("Put")
	err = g.inner.Put(k, id, v)
	g.puts = append(g.puts, putRec{key: append([]byte(nil), k...), val: append([]byte(nil), v...), err: err})
	return err
}
func (g *guardStore) Radius() *uint256.Int {
	if g.radius != nil {
		return g.radius
	}
	return g.inner.Radius()
}
func (g *guardStore) Close() error { return g.inner.Close() }

type guardValidator struct {
	inner validation.Validator
	name  string
	rec   *[]panicRec
	calls []valRec
	// seeded preemption of the goroutine that validates (fault: the worker loses the processor in the
	// middle of a validation, as it does on a loaded machine or with more than one core)
	preemptEvery uint64
	preemptSeed  uint64
	preempts     uint64
	// alignMs > 0: the validating goroutine is held back until the next multiple of alignMs (a stalled
	// worker): validations that arrive within one such interval begin at the same instant
	alignMs  int64
	stalls   int
	active   int // validations in progress
	overlaps int // validations that began while another one was in progress
}

type valRec struct {
	key, val []byte
	err      error
}

func (g *guardValidator) ValidateContent(k, c []byte) (err error) {
	defer func() {
		if r := recover(); r != nil {
			*g.rec = append(*g.rec, panicRec{where: g.name + " validator", val: r, stack: string(debug.Stack())})
			if g.preemptEvery > 0 {
				g.preempts += verifPreemptMe(0, 0)
			}
			panic(r)
		}
	}()
	if g.alignMs > 0 {
		if rem := g.alignMs - time.Now().UnixMilli()%g.alignMs; rem < g.alignMs {
			g.stalls++
			time.Sleep(time.Duration(rem) * time.Millisecond)
		}
	}
	if g.active > 0 {
		g.overlaps++
	}
	g.active++
	defer func() { g.active-- }()
	if g.preemptEvery > 0 {
		// per validation: not at all, often, or once in a long while (one goroutine that loses the
		// processor once while another runs through undisturbed is the classic lost-update schedule)
		g.preemptSeed += 0x9e3779b97f4a7c15
		every := g.preemptEvery
		switch r := mix64(g.preemptSeed) % 10; {
		case r < 4:
			every = 1 << 40
		case r < 8:
			every = 100 + mix64(g.preemptSeed^1)%4000
		}
		verifPreemptMe(every, g.preemptSeed)
		err = g.inner.ValidateContent(k, c)
		n := verifPreemptMe(0, 0)
		g.preempts += n
	} else {
		err = g.inner.ValidateContent(k, c)
	}
	g.calls = append(g.calls, valRec{key: append([]byte(nil), k...), val: append([]byte(nil), c...), err: err})
	return err
}

type netInst struct {
	name  string
	id    portalwire.ProtocolId
	p     *portalwire.PortalProtocol
	api   *portalwire.PortalProtocolAPI
	store *guardStore
	val   *guardValidator
	stop  func()
}

type fullNodeT struct {
	*baseNode
	rpc     *rpc.Server
	nets    map[string]*netInst
	panics  []panicRec
	histNet *history.Network
	beacNet *beacon.Network
	statNet *state.Network
	lc      *beacon.ConsensusLightClient
}

func (w *world) newFullNode(cfg nodeCfg, networks []string) *fullNodeT {
	b := w.newBase(cfg)
	n := &fullNodeT{baseNode: b, rpc: rpc.NewServer(), nets: map[string]*netInst{}}
	history.VerifResetPool()
	capMB := cfg.capacityMB
	if capMB == 0 {
		capMB = 100
	}
	fs := vfs.NewMem()
	has := func(s string) bool {
		for _, x := range networks {
			if x == s {
				return true
			}
		}
		return false
	}
	mk := func(id portalwire.ProtocolId, st storage.ContentStorage, qcap int) (*netInst, chan *portalwire.ContentElement) {
		ni := &netInst{name: id.Name(), id: id}
		ni.store = &guardStore{inner: st, name: id.Name(), rec: &n.panics}
		q := make(chan *portalwire.ContentElement, qcap)
		p, err := portalwire.NewPortalProtocol(b.pcfg, id, cfg.key, b.sock, b.ln, b.disc, b.utp, ni.store, q, b.vcache, portalwire.WithDisableTableInitCheckOption(true))
		if err != nil {
			fatal2("full node: " + err.Error())
		}
		ni.p = p
		ni.api = portalwire.NewPortalAPI(p)
		n.nets[id.Name()] = ni
		return ni, q
	}
	if has("history") {
		db := openPebble(fs, "/history")
		sc := storage.PortalStorageConfig{StorageCapacityMB: capMB, NodeId: b.id(), NetworkName: "history"}
		eternal, err := spebble.NewStorage(sc, db)
		if err != nil {
			fatal2("history storage: " + err.Error())
		}
		eph := history.NewEphemeralStorage(sc, openPebble(fs, "/history_ephemeral"))
		hs, _ := history.NewHistoryStorage(eternal, eph)
		ni, _ := mk(portalwire.History, hs, 50)
		if err := n.rpc.RegisterName("portal", history.NewHistoryNetworkAPI(ni.api)); err != nil {
			fatal2("rpc: " + err.Error())
		}
		oracle := validation.NewOracle(rpc.DialInProc(n.rpc))
		ni.val = &guardValidator{inner: history.NewHistoryValidator(oracle), name: "history", rec: &n.panics}
		n.histNet = history.NewHistoryNetwork(ni.p, ni.val)
		ni.stop = n.histNet.Stop
	}
	if has("beacon") {
		db := openPebble(fs, "/beacon")
		st, err := beacon.NewBeaconStorage(storage.PortalStorageConfig{StorageCapacityMB: capMB, NodeId: b.id(), Spec: configs.Mainnet, NetworkName: "beacon"}, db)
		if err != nil {
			fatal2("beacon storage: " + err.Error())
		}
		ni, _ := mk(portalwire.Beacon, st, 50)
		bcfg := beacon.DefaultConfig()
		portalRpc := beacon.NewPortalLightApi(ni.p, bcfg.Spec)
		lc, err := beacon.NewConsensusLightClient(portalRpc, &bcfg, zcommon.Root(bcfg.DefaultCheckpoint), log.New("beacon", "light-client"))
		if err != nil {
			fatal2("light client: " + err.Error())
		}
		n.lc = lc
		if err := n.rpc.RegisterName("portal", beacon.NewBeaconNetworkAPI(ni.api, lc)); err != nil {
			fatal2("rpc: " + err.Error())
		}
		oracle := validation.NewOracle(rpc.DialInProc(n.rpc))
		ni.val = &guardValidator{inner: beacon.NewBeaconValidator(oracle, configs.Mainnet), name: "beacon", rec: &n.panics}
		n.beacNet = beacon.NewBeaconNetwork(ni.p, lc, ni.val)
		ni.stop = n.beacNet.Stop
	}
	if has("state") {
		db := openPebble(fs, "/state")
		cs, err := spebble.NewStorage(storage.PortalStorageConfig{StorageCapacityMB: capMB, NodeId: b.id(), NetworkName: "state"}, db)
		if err != nil {
			fatal2("state storage: " + err.Error())
		}
		ss := state.NewStateStorage(cs, db)
		qc := cfg.maxUtp
		if qc < 1 {
			qc = 1
		}
		ni, _ := mk(portalwire.State, ss, qc)
		if err := n.rpc.RegisterName("portal", state.NewStateNetworkAPI(ni.api)); err != nil {
			fatal2("rpc: " + err.Error())
		}
		oracle := validation.NewOracle(rpc.DialInProc(n.rpc))
		ni.val = &guardValidator{inner: state.NewStateValidator(oracle), name: "state", rec: &n.panics}
		n.statNet = state.NewStateNetwork(ni.p, ni.val)
		ni.stop = n.statNet.Stop
	}
	// start (as portal.Node.Start does, sequentially here)
	if n.histNet != nil {
		if err := n.histNet.Start(); err != nil {
			fatal2("start history: " + err.Error())
		}
	}
	if n.beacNet != nil {
		if err := n.beacNet.Start(); err != nil {
			fatal2("start beacon: " + err.Error())
		}
	}
	if n.statNet != nil {
		if err := n.statNet.Start(); err != nil {
			fatal2("start state: " + err.Error())
		}
	}
	return n
}

func (n *fullNodeT) String() string { return fmt.Sprintf("full{%s}", n.cfg.name) }
