package sim

import (
	"bytes"
	"crypto/sha256"
	"encoding/binary"
	"errors"
	"fmt"
	"math/big"

	"github.com/ethereum/go-ethereum/common"
	"github.com/ethereum/go-ethereum/core/types"
	"github.com/ethereum/go-ethereum/rlp"
	"github.com/ethereum/go-ethereum/trie"
)

// Independent binding oracle for history content (C02): nothing here calls shisui's
// validation code. Decoding is the harness' own minimal SSZ; roots are recomputed with
// go-ethereum's DeriveSha.

type hblock struct {
	name    string
	genuine bool
	header  *types.Header
	hash    common.Hash
	// genuine encodings (nil for items the harness does not have)
	hdrVal, bodyVal, rcptVal []byte
	hdrRLP, proof            []byte
	proofUnknown             bool // canonical block whose valid header proof the harness does not have
}

func keyHdrHash(h common.Hash) []byte { return append([]byte{0x00}, h[:]...) }
func keyBody(h common.Hash) []byte    { return append([]byte{0x01}, h[:]...) }
func keyRcpt(h common.Hash) []byte    { return append([]byte{0x02}, h[:]...) }
func keyHdrNum(n uint64) []byte {
	var b [9]byte
	b[0] = 0x03
	binary.LittleEndian.PutUint64(b[1:], n)
	return b[:]
}

// decHeaderWithProof: container{header: bytes, proof: bytes}
func decHeaderWithProof(b []byte) (hdr, proof []byte, err error) {
	if len(b) < 8 {
		return nil, nil, errors.New("short")
	}
	o1, o2 := int(binary.LittleEndian.Uint32(b)), int(binary.LittleEndian.Uint32(b[4:]))
	if o1 != 8 || o2 < o1 || o2 > len(b) {
		return nil, nil, errors.New("bad offsets")
	}
	return b[o1:o2], b[o2:], nil
}

func encHeaderWithProof(hdr, proof []byte) []byte {
	out := make([]byte, 8, 8+len(hdr)+len(proof))
	binary.LittleEndian.PutUint32(out, 8)
	binary.LittleEndian.PutUint32(out[4:], uint32(8+len(hdr)))
	return append(append(out, hdr...), proof...)
}

type decodedBody struct {
	txs         types.Transactions
	uncles      []*types.Header
	withdrawals types.Withdrawals
	hasWd       bool
}

// decBody: legacy container{txs, uncles} or shanghai container{txs, uncles, withdrawals}
func decBody(b []byte) (*decodedBody, error) {
	if len(b) < 8 {
		return nil, errors.New("short body")
	}
	o0 := int(binary.LittleEndian.Uint32(b))
	var offs []int
	switch o0 {
	case 8:
		offs = []int{8, int(binary.LittleEndian.Uint32(b[4:])), len(b)}
	case 12:
		if len(b) < 12 {
			return nil, errors.New("short body")
		}
		offs = []int{12, int(binary.LittleEndian.Uint32(b[4:])), int(binary.LittleEndian.Uint32(b[8:])), len(b)}
	default:
		return nil, errors.New("bad first offset")
	}
	for i := 1; i < len(offs); i++ {
		if offs[i] < offs[i-1] || offs[i] > len(b) {
			return nil, errors.New("bad offsets")
		}
	}
	d := &decodedBody{}
	txl, err := decByteLists(b[offs[0]:offs[1]])
	if err != nil {
		return nil, err
	}
	for _, t := range txl {
		tx := new(types.Transaction)
		if err := tx.UnmarshalBinary(t); err != nil {
			return nil, err
		}
		d.txs = append(d.txs, tx)
	}
	if err := rlp.DecodeBytes(b[offs[1]:offs[2]], &d.uncles); err != nil {
		return nil, err
	}
	if len(offs) == 4 {
		d.hasWd = true
		wl, err := decByteLists(b[offs[2]:offs[3]])
		if err != nil {
			return nil, err
		}
		for _, wb := range wl {
			wd := new(types.Withdrawal)
			if err := rlp.DecodeBytes(wb, wd); err != nil {
				return nil, err
			}
			d.withdrawals = append(d.withdrawals, wd)
		}
	}
	return d, nil
}

func encBody(txs types.Transactions, uncles []*types.Header, wds types.Withdrawals, shanghai bool) []byte {
	var txb [][]byte
	for _, t := range txs {
		b, _ := t.MarshalBinary()
		txb = append(txb, b)
	}
	txl := sszLists(txb)
	if len(txb) == 0 {
		txl = nil
	}
	if uncles == nil {
		uncles = []*types.Header{}
	}
	ub, _ := rlp.EncodeToBytes(uncles)
	if !shanghai {
		out := make([]byte, 8)
		binary.LittleEndian.PutUint32(out, 8)
		binary.LittleEndian.PutUint32(out[4:], uint32(8+len(txl)))
		return append(append(out, txl...), ub...)
	}
	var wb [][]byte
	for _, w := range wds {
		b, _ := rlp.EncodeToBytes(w)
		wb = append(wb, b)
	}
	wl := sszLists(wb)
	if len(wb) == 0 {
		wl = nil
	}
	out := make([]byte, 12)
	binary.LittleEndian.PutUint32(out, 12)
	binary.LittleEndian.PutUint32(out[4:], uint32(12+len(txl)))
	binary.LittleEndian.PutUint32(out[8:], uint32(12+len(txl)+len(ub)))
	return append(append(append(out, txl...), ub...), wl...)
}

func decReceipts(b []byte) (types.Receipts, error) {
	rl, err := decByteLists(b)
	if err != nil {
		return nil, err
	}
	var out types.Receipts
	for _, rb := range rl {
		r := new(types.Receipt)
		if err := r.UnmarshalBinary(rb); err != nil {
			return nil, err
		}
		out = append(out, r)
	}
	return out, nil
}

func encReceipts(rs types.Receipts) []byte {
	var rb [][]byte
	for _, r := range rs {
		b, _ := r.MarshalBinary()
		rb = append(rb, b)
	}
	if len(rb) == 0 {
		return nil
	}
	return sszLists(rb)
}

var emptyRoot = types.EmptyRootHash

// binder judges whether (key, content) is cryptographically tied to its key.
type binder struct {
	byHash map[common.Hash]*hblock
	byNum  map[uint64]*hblock
	// contents the harness itself filled with random proof data: valid with probability 2^-256
	knownInvalid map[[32]byte]bool
}

func newBinder() *binder {
	return &binder{byHash: map[common.Hash]*hblock{}, byNum: map[uint64]*hblock{}, knownInvalid: map[[32]byte]bool{}}
}

func (b *binder) markInvalid(content []byte) { b.knownInvalid[sha256.Sum256(content)] = true }

func (b *binder) add(blk *hblock) {
	b.byHash[blk.hash] = blk
	if blk.genuine {
		b.byNum[blk.header.Number.Uint64()] = blk
	}
}

// judge returns "" when the harness cannot prove the item unbound, else the reason.
func (b *binder) judge(key, content []byte) string {
	if len(key) == 0 {
		return "empty key"
	}
	switch key[0] {
	case 0x00, 0x03:
		hdrRLP, proof, err := decHeaderWithProof(content)
		if err != nil {
			return "header-with-proof does not decode: " + err.Error()
		}
		hdr := new(types.Header)
		if err := rlp.DecodeBytes(hdrRLP, hdr); err != nil {
			return "header RLP does not decode"
		}
		var ref *hblock
		if key[0] == 0x00 {
			if len(key) != 33 || !bytes.Equal(hdr.Hash().Bytes(), key[1:]) {
				return fmt.Sprintf("header hash %x is not the key's hash", hdr.Hash().Bytes()[:6])
			}
			ref = b.byHash[hdr.Hash()]
		} else {
			if len(key) != 9 || hdr.Number == nil || hdr.Number.Uint64() != binary.LittleEndian.Uint64(key[1:]) {
				return "header number is not the key's number"
			}
			ref = b.byNum[hdr.Number.Uint64()]
			if ref != nil && ref.hash != hdr.Hash() {
				return "header is not the canonical block of that number"
			}
		}
		if ref == nil || !ref.genuine {
			return "header is not part of the canonical chain: no proof against the built-in accumulators can exist"
		}
		if b.knownInvalid[sha256.Sum256(content)] {
			return "the proof was filled with random siblings by the harness"
		}
		if ref.proofUnknown {
			return "" // canonical header, genuine proof not available to the harness: cannot be judged
		}
		// Merkle uniqueness: the one valid proof for a canonical header is the genuine one
		if !bytes.Equal(proof, ref.proof) {
			return "proof differs from the only valid proof of that header"
		}
		return ""
	case 0x01:
		if len(key) != 33 {
			return "bad body key"
		}
		ref := b.byHash[common.BytesToHash(key[1:])]
		if ref == nil {
			return "no header with the key's block hash exists"
		}
		d, err := decBody(content)
		if err != nil {
			return "body does not decode: " + err.Error()
		}
		if h := types.DeriveSha(d.txs, trie.NewStackTrie(nil)); h != ref.header.TxHash {
			return "transactions root differs from the header's"
		}
		if h := types.CalcUncleHash(d.uncles); h != ref.header.UncleHash {
			return "uncles hash differs from the header's"
		}
		if ref.header.WithdrawalsHash != nil {
			// a legacy-encoded body carries no withdrawals: bound only if the header commits to the empty list
			if h := types.DeriveSha(d.withdrawals, trie.NewStackTrie(nil)); h != *ref.header.WithdrawalsHash {
				if !d.hasWd {
					return "header commits to withdrawals, the body carries none"
				}
				return "withdrawals root differs from the header's"
			}
		} else if d.hasWd && len(d.withdrawals) > 0 {
			return "body carries withdrawals, the header commits to none"
		}
		return ""
	case 0x02:
		if len(key) != 33 {
			return "bad receipts key"
		}
		ref := b.byHash[common.BytesToHash(key[1:])]
		if ref == nil {
			return "no header with the key's block hash exists"
		}
		if len(content) == 0 {
			if ref.header.ReceiptHash != emptyRoot {
				return "empty receipts for a header with a non-empty receipts root"
			}
			return ""
		}
		rs, err := decReceipts(content)
		if err != nil {
			return "receipts do not decode: " + err.Error()
		}
		if h := types.DeriveSha(rs, trie.NewStackTrie(nil)); h != ref.header.ReceiptHash {
			return "receipts root differs from the header's"
		}
		return ""
	}
	return "" // other key types are outside C02
}

// ---------- genuine blocks from the repository's vectors ----------

func loadGenuineBlocks() []*hblock {
	byHash := map[common.Hash]*hblock{}
	var order []*hblock
	addHeaders := func(vecs []vector, proofUnknown bool) {
		for _, v := range vecs {
			if len(v.Key) != 33 || v.Key[0] != 0x00 {
				continue
			}
			hdrRLP, proof, err := decHeaderWithProof(v.Val)
			if err != nil {
				fatal2("genuine header vector does not decode: " + err.Error())
			}
			hdr := new(types.Header)
			if err := rlp.DecodeBytes(hdrRLP, hdr); err != nil {
				fatal2("genuine header rlp: " + err.Error())
			}
			if !bytes.Equal(hdr.Hash().Bytes(), v.Key[1:]) {
				fatal2("genuine header vector: hash mismatch")
			}
			if byHash[hdr.Hash()] != nil {
				continue
			}
			blk := &hblock{name: fmt.Sprintf("mainnet-%d", hdr.Number.Uint64()), genuine: true, header: hdr, hash: hdr.Hash(), hdrVal: v.Val, hdrRLP: hdrRLP, proof: proof, proofUnknown: proofUnknown}
			byHash[blk.hash] = blk
			order = append(order, blk)
		}
	}
	addItems := func(vecs []vector) {
		for _, v := range vecs {
			if len(v.Key) != 33 {
				continue
			}
			blk := byHash[common.BytesToHash(v.Key[1:])]
			if blk == nil {
				continue
			}
			switch v.Key[0] {
			case 0x01:
				if blk.bodyVal == nil {
					blk.bodyVal = v.Val
				}
			case 0x02:
				if blk.rcptVal == nil {
					blk.rcptVal = v.Val
				}
			}
		}
	}
	// complete, currently valid sets (pre-merge): header by hash / by number, body, receipts
	var valid []vector
	for _, f := range []string{"1", "100", "7000000", "15537393"} {
		valid = append(valid, loadVectorFile(repoRoot()+"/history/testdata/validation/"+f+".yaml", "history")...)
	}
	addHeaders(valid, false)
	addItems(valid)
	// ten more pre-merge headers with valid proofs
	addHeaders(loadVectorFile(repoRoot()+"/validation/testdata/header_with_proofs.json", "history"), false)
	// post-merge blocks: header RLP, body and receipts are genuine, but the header proofs in that
	// file use an older container format, so the valid proof is unknown to the harness
	forks := loadVectorFile(repoRoot()+"/history/testdata/test_data_collection_of_forks_blocks.yaml", "history")
	addHeaders(forks, true)
	addItems(forks)
	return order
}

// ---------- synthetic blocks ----------

func synthBlock(rs *prng, number uint64, withWithdrawals bool, ntx, nrcpt int) (*hblock, []byte, []byte) {
	var txs types.Transactions
	for i := 0; i < ntx; i++ {
		to := common.BytesToAddress(rs.bytes(20))
		txs = append(txs, types.NewTx(&types.LegacyTx{Nonce: uint64(i), GasPrice: big.NewInt(int64(1 + rs.intn(1000))), Gas: 21000, To: &to, Value: big.NewInt(int64(rs.intn(1 << 30))), V: big.NewInt(27), R: big.NewInt(int64(1 + rs.intn(1<<30))), S: big.NewInt(int64(1 + rs.intn(1<<30)))}))
	}
	var wds types.Withdrawals
	if withWithdrawals {
		for i := 0; i < 1+rs.intn(4); i++ {
			wds = append(wds, &types.Withdrawal{Index: uint64(i), Validator: uint64(rs.intn(1000)), Address: common.BytesToAddress(rs.bytes(20)), Amount: uint64(rs.intn(1 << 30))})
		}
	}
	var rcpts types.Receipts
	for i := 0; i < nrcpt; i++ {
		rcpts = append(rcpts, &types.Receipt{Type: 0, Status: uint64(rs.intn(2)), CumulativeGasUsed: uint64(21000 * (i + 1)), Logs: []*types.Log{}})
	}
	hdr := &types.Header{
		ParentHash: common.BytesToHash(rs.bytes(32)), UncleHash: types.CalcUncleHash(nil), Coinbase: common.BytesToAddress(rs.bytes(20)),
		Root: common.BytesToHash(rs.bytes(32)), TxHash: types.DeriveSha(txs, trie.NewStackTrie(nil)), ReceiptHash: types.DeriveSha(rcpts, trie.NewStackTrie(nil)),
		Difficulty: big.NewInt(0), Number: new(big.Int).SetUint64(number), GasLimit: 30_000_000, GasUsed: uint64(21000 * ntx), Time: 1_700_000_000, Extra: []byte("sim"),
		BaseFee: big.NewInt(7),
	}
	if withWithdrawals {
		h := types.DeriveSha(wds, trie.NewStackTrie(nil))
		hdr.WithdrawalsHash = &h
	}
	hdrRLP, _ := rlp.EncodeToBytes(hdr)
	blk := &hblock{name: fmt.Sprintf("synthetic-%d", number), header: hdr, hash: hdr.Hash(), hdrRLP: hdrRLP}
	blk.bodyVal = encBody(txs, nil, wds, withWithdrawals)
	blk.rcptVal = encReceipts(rcpts)
	return blk, encBody(txs, nil, nil, false), encBody(txs, nil, wds, true)
}

// foldBranch computes the Merkle root reached from leaf through siblings at generalized index gindex.
func foldBranch(leaf [32]byte, siblings [][32]byte, gindex uint64) [32]byte {
	node := leaf
	for i, s := range siblings {
		var buf [64]byte
		if (gindex>>uint(i))&1 == 1 {
			copy(buf[:32], s[:])
			copy(buf[32:], node[:])
		} else {
			copy(buf[:32], node[:])
			copy(buf[32:], s[:])
		}
		node = sha256.Sum256(buf[:])
	}
	return node
}

// craftedPostMergeProof builds a proof whose execution-block branch verifies by construction
// (the beacon block root is computed from the header hash), with an arbitrary slot.
// era: 0 merge..capella (14+11 siblings), 1 capella (13+11), 2 deneb (13+12).
func craftedPostMergeProof(rs *prng, headerHash common.Hash, era int, slot uint64) []byte {
	nBeacon, nExec, gindex := 14, 11, uint64(3228)
	switch era {
	case 1:
		nBeacon = 13
	case 2:
		nBeacon, nExec, gindex = 13, 12, 6444
	}
	var exec [][32]byte
	for i := 0; i < nExec; i++ {
		var s [32]byte
		copy(s[:], rs.bytes(32))
		exec = append(exec, s)
	}
	root := foldBranch(headerHash, exec, gindex)
	var out []byte
	for i := 0; i < nBeacon; i++ {
		out = append(out, rs.bytes(32)...)
	}
	out = append(out, root[:]...)
	for _, s := range exec {
		out = append(out, s[:]...)
	}
	var sb [8]byte
	binary.LittleEndian.PutUint64(sb[:], slot)
	return append(out, sb[:]...)
}
