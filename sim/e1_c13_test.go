package sim

import (
	"bytes"
	"errors"
	"fmt"
	"math/big"
	"time"

	"github.com/ethereum/go-ethereum/common"
	"github.com/ethereum/go-ethereum/core/rawdb"
	"github.com/ethereum/go-ethereum/core/types"
	"github.com/ethereum/go-ethereum/crypto"
	"github.com/ethereum/go-ethereum/ethdb/memorydb"
	"github.com/ethereum/go-ethereum/rlp"
	gtrie "github.com/ethereum/go-ethereum/trie"
	"github.com/ethereum/go-ethereum/triedb"
	"github.com/holiman/uint256"
	zcommon "github.com/protolambda/zrnt/eth2/beacon/common"
	"github.com/protolambda/ztyp/codec"
	"github.com/zen-eth/shisui/portalwire"
	"github.com/zen-eth/shisui/state"
)

// C13 — state content is accepted only with a hash-linked proof down to the state root.

func init() { engines["c13"] = runC13 }

// ---------- the harness' own trie walk (independent of state/trie) ----------

func compactToNibbles(c []byte) (nib []byte, leaf bool, err error) {
	if len(c) == 0 {
		return nil, false, errors.New("empty compact key")
	}
	flag := c[0] >> 4
	if flag > 3 {
		return nil, false, errors.New("bad compact flag")
	}
	leaf = flag >= 2
	if flag&1 == 1 {
		nib = append(nib, c[0]&0x0f)
	}
	for _, b := range c[1:] {
		nib = append(nib, b>>4, b&0x0f)
	}
	return nib, leaf, nil
}

var errNoChild = errors.New("no child on that path")

// stepNode follows path inside one RLP node (through embedded children) until it reaches a hash
// reference (ref, 32 bytes) or a leaf value (val).
func stepNode(node []byte, path []byte) (ref []byte, val []byte, rem []byte, err error) {
	elems, err := rlpListElems(node)
	if err != nil {
		return nil, nil, nil, err
	}
	follow := func(child []byte, rest []byte) ([]byte, []byte, []byte, error) {
		kind, content, _, err := rlp.Split(child)
		if err != nil {
			return nil, nil, nil, err
		}
		if kind == rlp.List {
			return stepNode(child, rest) // embedded node
		}
		switch len(content) {
		case 0:
			return nil, nil, nil, errNoChild
		case 32:
			return content, nil, rest, nil
		}
		return nil, nil, nil, errors.New("child reference is neither a hash nor an embedded node")
	}
	switch len(elems) {
	case 17:
		if len(path) == 0 {
			return nil, nil, nil, errors.New("path ends at a branch node")
		}
		if path[0] > 15 {
			return nil, nil, nil, errors.New("bad nibble")
		}
		return follow(elems[path[0]], path[1:])
	case 2:
		_, kc, _, err := rlp.Split(elems[0])
		if err != nil {
			return nil, nil, nil, err
		}
		nib, leaf, err := compactToNibbles(kc)
		if err != nil {
			return nil, nil, nil, err
		}
		if len(path) < len(nib) || !bytes.Equal(path[:len(nib)], nib) {
			return nil, nil, nil, errors.New("key of the short node is not on the path")
		}
		if leaf {
			if len(path) != len(nib) {
				return nil, nil, nil, errors.New("leaf key shorter than the path")
			}
			_, v, _, err := rlp.Split(elems[1])
			if err != nil {
				return nil, nil, nil, err
			}
			return nil, v, nil, nil
		}
		if len(nib) == 0 {
			return nil, nil, nil, errors.New("extension with empty key")
		}
		return follow(elems[1], path[len(nib):])
	}
	return nil, nil, nil, errors.New("node is neither a branch nor a short node")
}

func rlpListElems(b []byte) ([][]byte, error) {
	kind, content, rest, err := rlp.Split(b)
	if err != nil || kind != rlp.List || len(rest) != 0 {
		return nil, errors.New("not a single RLP list")
	}
	var out [][]byte
	for len(content) > 0 {
		_, _, r, err := rlp.Split(content)
		if err != nil {
			return nil, err
		}
		out = append(out, content[:len(content)-len(r)])
		content = r
	}
	return out, nil
}

// walkProof checks the hash links from root along path; returns the last proof node and the
// path that remains at its entry.
func walkProof(root []byte, path []byte, proof [][]byte) (last []byte, rem []byte, err error) {
	if len(proof) == 0 {
		return nil, nil, errors.New("empty proof")
	}
	expected := root
	rem = path
	for i, n := range proof {
		if !bytes.Equal(crypto.Keccak256(n), expected) {
			if i == 0 {
				return nil, nil, errors.New("first node is not the state root")
			}
			return nil, nil, fmt.Errorf("node %d is not the child referenced by node %d", i, i-1)
		}
		if i == len(proof)-1 {
			return n, rem, nil
		}
		ref, _, r, err := stepNode(n, rem)
		if err != nil {
			return nil, nil, fmt.Errorf("node %d: %w", i, err)
		}
		if ref == nil {
			return nil, nil, fmt.Errorf("node %d ends in a leaf but more nodes follow", i)
		}
		expected, rem = ref, r
	}
	return nil, nil, errors.New("unreachable")
}

func hashNibbles(h []byte) []byte {
	var out []byte
	for _, b := range h {
		out = append(out, b>>4, b&0x0f)
	}
	return out
}

// accountFromProof walks an account proof and decodes the account at its end.
func accountFromProof(root []byte, addrHash []byte, proof [][]byte) (*types.StateAccount, error) {
	last, rem, err := walkProof(root, hashNibbles(addrHash), proof)
	if err != nil {
		return nil, err
	}
	_, val, _, err := stepNode(last, rem)
	if err != nil {
		return nil, err
	}
	if val == nil {
		return nil, errors.New("account proof does not end in a leaf")
	}
	acc := new(types.StateAccount)
	if err := rlp.DecodeBytes(val, acc); err != nil {
		return nil, err
	}
	return acc, nil
}

// ---------- synthetic state ----------

type c13acct struct {
	addrHash []byte
	acct     *types.StateAccount
	code     []byte
	storage  *c13trie
	// an adversarial slot: its stored value (the RLP of 31 bytes, 32 bytes in all) equals the hash of
	// forgedNode, so that a walk which takes a leaf's value for a child reference would continue into it
	forgedSlotKey []byte
	forgedNode    []byte
}

type c13trie struct {
	root  common.Hash
	nodes *memorydb.Database
	keys  [][]byte
}

// nodesOnPath returns the hashed nodes from the root towards key, with the nibble path consumed
// before each of them.
func (t *c13trie) nodesOnPath(key []byte) (nodes [][]byte, paths [][]byte) {
	path := hashNibbles(key)
	expected := t.root[:]
	var consumed []byte
	for {
		n, err := t.nodes.Get(expected)
		if err != nil {
			return
		}
		nodes = append(nodes, n)
		paths = append(paths, append([]byte{}, consumed...))
		ref, _, rem, err := stepNode(n, path)
		if err != nil || ref == nil {
			return
		}
		consumed = append(consumed, path[:len(path)-len(rem)]...)
		path = rem
		expected = ref
	}
}

func buildTrie(kv map[string][]byte) *c13trie {
	tr := gtrie.NewEmpty(triedb.NewDatabase(rawdb.NewMemoryDatabase(), nil))
	t := &c13trie{nodes: memorydb.New()}
	for k, v := range kv {
		tr.MustUpdate([]byte(k), v)
		t.keys = append(t.keys, []byte(k))
	}
	t.root = tr.Hash()
	for k := range kv {
		if err := tr.Prove([]byte(k), t.nodes); err != nil {
			fatal2("c13 prove: " + err.Error())
		}
	}
	return t
}

func c13Keys(rs *prng, n int) [][]byte {
	var keys [][]byte
	seen := map[string]bool{}
	for i := 0; i < n; i++ {
		k := rs.bytes(32)
		if i > 0 && rs.chance(40) {
			// share a prefix with an earlier key: extension nodes and deep branches
			p := keys[rs.intn(len(keys))]
			l := 1 + rs.intn(31)
			copy(k, p[:l])
			if rs.chance(50) {
				k[l-1] = p[l-1]&0xf0 | byte(rs.intn(16)) // diverge inside a byte: odd-length extension keys
			}
		}
		for seen[string(k)] {
			// a 31-byte shared prefix leaves one random byte: the same key twice would silently replace
			// the earlier account / slot in the trie
			k[31]++
		}
		seen[string(k)] = true
		keys = append(keys, k)
	}
	return keys
}

type c13world struct {
	hdr      *types.Header
	hdrRLP   []byte
	hash     common.Hash
	accounts *c13trie
	accts    []*c13acct
}

func buildState(rs *prng, nAcc int, number uint64) *c13world {
	wld := &c13world{}
	kv := map[string][]byte{}
	for i, k := range c13Keys(rs, nAcc) {
		a := &c13acct{addrHash: k, acct: &types.StateAccount{Nonce: uint64(rs.intn(100)), Balance: uint256.NewInt(uint64(rs.intn(1 << 40))), Root: types.EmptyRootHash, CodeHash: types.EmptyCodeHash[:]}}
		if i%3 == 0 {
			a.code = rs.bytes(1 + rs.intn(600))
			a.acct.CodeHash = crypto.Keccak256(a.code)
			skv := map[string][]byte{}
			for _, sk := range c13Keys(rs, 1+rs.intn(12)) {
				v, _ := rlp.EncodeToBytes(rs.bytes(1 + rs.intn(31))) // small values: embedded nodes appear
				skv[string(sk)] = v
			}
			if i == 0 {
				for {
					forged, _ := rlp.EncodeToBytes([]any{append([]byte{0x20}, rs.bytes(3)...), rs.bytes(8)})
					if h := crypto.Keccak256(forged); h[0] == 0x9f {
						a.forgedNode = forged
						a.forgedSlotKey = rs.bytes(32)
						skv[string(a.forgedSlotKey)] = h // = RLP of the 31 bytes h[1:]
						break
					}
				}
			}
			a.storage = buildTrie(skv)
			a.acct.Root = a.storage.root
		}
		enc, _ := rlp.EncodeToBytes(a.acct)
		kv[string(k)] = enc
		wld.accts = append(wld.accts, a)
	}
	wld.accounts = buildTrie(kv)
	wld.hdr = &types.Header{ParentHash: common.BytesToHash(rs.bytes(32)), UncleHash: types.EmptyUncleHash, Root: wld.accounts.root, TxHash: types.EmptyTxsHash, ReceiptHash: types.EmptyReceiptsHash,
		Difficulty: big.NewInt(1), Number: new(big.Int).SetUint64(number), GasLimit: 30_000_000, Time: 1_600_000_000, Extra: []byte("c13")}
	wld.hdrRLP, _ = rlp.EncodeToBytes(wld.hdr)
	wld.hash = wld.hdr.Hash()
	return wld
}

// ---------- item construction and judging ----------

func toProof(nodes [][]byte) state.TrieProof {
	var p state.TrieProof
	for _, n := range nodes {
		p = append(p, state.EncodedTrieNode(n))
	}
	return p
}

func sszBytes(obj interface {
	Serialize(w *codec.EncodingWriter) error
}) []byte {
	var buf bytes.Buffer
	if err := obj.Serialize(codec.NewEncodingWriter(&buf)); err != nil {
		return nil
	}
	return buf.Bytes()
}

func b32(b []byte) (out zcommon.Bytes32) {
	copy(out[:], b)
	return
}

// judgeState decides, with the harness' own walk, whether (key, content) satisfies the property.
// headers: block hash -> state root known to the harness. It also returns what must be stored.
func judgeState(headers map[common.Hash]common.Hash, key, content []byte) (store []byte, why string) {
	if len(key) == 0 {
		return nil, "empty key"
	}
	rd := func(b []byte) *codec.DecodingReader {
		return codec.NewDecodingReader(bytes.NewReader(b), uint64(len(b)))
	}
	raw := func(p state.TrieProof) [][]byte {
		var out [][]byte
		for _, n := range p {
			out = append(out, []byte(n))
		}
		return out
	}
	switch key[0] {
	case state.AccountTrieNodeType:
		k, c := &state.AccountTrieNodeKey{}, &state.AccountTrieNodeWithProof{}
		if k.Deserialize(rd(key[1:])) != nil || c.Deserialize(rd(content)) != nil {
			return nil, "key or content does not decode"
		}
		root, ok := headers[common.Hash(c.BlockHash)]
		if !ok {
			return nil, "no header with the named block hash exists"
		}
		last, rem, err := walkProof(root[:], k.Path.Nibbles, raw(c.Proof))
		if err != nil {
			return nil, err.Error()
		}
		if len(rem) != 0 {
			return nil, "the key's path is not fully consumed at the final node"
		}
		if !bytes.Equal(crypto.Keccak256(last), k.NodeHash[:]) {
			return nil, "final node is not the node named by the key"
		}
		return last, ""
	case state.ContractStorageTrieNodeType:
		k, c := &state.ContractStorageTrieNodeKey{}, &state.ContractStorageTrieNodeWithProof{}
		if k.Deserialize(rd(key[1:])) != nil || c.Deserialize(rd(content)) != nil {
			return nil, "key or content does not decode"
		}
		root, ok := headers[common.Hash(c.BlockHash)]
		if !ok {
			return nil, "no header with the named block hash exists"
		}
		acc, err := accountFromProof(root[:], k.AddressHash[:], raw(c.AccountProof))
		if err != nil {
			return nil, "account proof: " + err.Error()
		}
		last, rem, err := walkProof(acc.Root[:], k.Path.Nibbles, raw(c.StorageProof))
		if err != nil {
			return nil, "storage proof: " + err.Error()
		}
		if len(rem) != 0 {
			return nil, "the key's path is not fully consumed at the final node"
		}
		if !bytes.Equal(crypto.Keccak256(last), k.NodeHash[:]) {
			return nil, "final node is not the node named by the key"
		}
		return last, ""
	case state.ContractByteCodeType:
		k, c := &state.ContractBytecodeKey{}, &state.ContractBytecodeWithProof{}
		if k.Deserialize(rd(key[1:])) != nil || c.Deserialize(rd(content)) != nil {
			return nil, "key or content does not decode"
		}
		root, ok := headers[common.Hash(c.BlockHash)]
		if !ok {
			return nil, "no header with the named block hash exists"
		}
		acc, err := accountFromProof(root[:], k.AddressHash[:], raw(c.AccountProof))
		if err != nil {
			return nil, "account proof: " + err.Error()
		}
		if !bytes.Equal(acc.CodeHash, k.CodeHash[:]) {
			return nil, "the proven account's code hash is not the key's"
		}
		if !bytes.Equal(crypto.Keccak256(c.Code), k.CodeHash[:]) {
			return nil, "the code does not hash to the key's code hash"
		}
		return []byte(c.Code), ""
	}
	return nil, "unknown key type"
}

func genC13(r *prng) *plan {
	p := &plan{Cfg: map[string]int64{}}
	p.Cfg["vv"] = int64(r.intn(3))
	p.Cfg["nacc"] = int64([]int{1, 2, 5, 20, 60, 200, 500}[r.intn(7)])
	p.Cfg["hdrsrc"] = int64(r.intn(3)) // 0 preloaded in the history store, 1 served by H, 2 served by B (lying allowed)
	n := 3 + r.intn(7)
	for i := 0; i < n; i++ {
		p.Ops = append(p.Ops, opSpec{K: "offer", N: []int64{int64(r.intn(3)), int64(r.intn(20)), int64(r.intn(3)), int64(r.u64() >> 1)}})
		if r.chance(20) {
			p.Ops = append(p.Ops, opSpec{K: "multi", N: []int64{int64(r.intn(3)), int64(1 + r.intn(9)), int64(r.intn(2)), int64(r.u64() >> 1)}})
		}
		if r.chance(25) {
			// the same key from two peers at once: an honest item and, arriving a little later, a corrupted
			// one (both are accepted when no in-flight verdict exists, i.e. over version 0)
			p.Ops = append(p.Ops, opSpec{K: "dual", N: []int64{int64(r.intn(3)), int64(1 + r.intn(9)), int64(r.intn(3000)), int64(r.u64() >> 1)}})
		}
	}
	// a third of the runs lose, duplicate and delay packets: offers, transfers and the header lookups the
	// validator depends on then fail half-way; nothing may be accepted that would not be accepted otherwise
	p.Cfg["faults"] = int64(r.intn(3) / 2)
	if r.chance(30) {
		// validations lose the processor at seeded points, datagrams arrive in batches and validating
		// goroutines are held back to a common instant: several validations are in progress at once
		p.Cfg["preempt"] = int64([]int{1, 2, 3, 5, 9, 17, 40}[r.intn(7)])
		p.Cfg["quantum"] = int64([]int{0, 5, 20, 50}[r.intn(4)])
		p.Cfg["align"] = int64([]int{0, 200, 200, 1000}[r.intn(4)])
		for i := 0; i < 2+r.intn(4); i++ {
			p.Ops = append(p.Ops, opSpec{K: "dual", N: []int64{int64(r.intn(3)), int64(1 + r.intn(9)), int64(r.intn(100)), int64(r.u64() >> 1)}})
		}
	}
	return p
}

func runC13(seed uint64) {
	p := loadOrGenPlan("c13", seed, genC13)
	w := newWorld(seed, "C13", "c13")
	w.res.Class = "fault-free"
	vv := versionSets[p.cfg("vv")%3]
	srs := newPrng(seed ^ 0xc13)
	// two synthetic blocks with different states: cross-block mutations need a second root
	w1 := buildState(srs, int(p.cfg("nacc")), 18_000_000)
	w2 := buildState(srs, 3, 18_000_001)
	headers := map[common.Hash]common.Hash{w1.hash: w1.hdr.Root, w2.hash: w2.hdr.Root}

	V := w.newFullNode(nodeCfg{name: "V", port: 9001, key: detKey(seed, 1), versions: vv, maxUtp: 20, capacityMB: 1000}, []string{"history", "state"})
	H := w.newContentPeer(nodeCfg{name: "H", port: 9002, key: detKey(seed, 2), versions: vv, maxUtp: 50}, vv)
	B := w.newContentPeer(nodeCfg{name: "B", port: 9003, key: detKey(seed, 3), versions: vv, maxUtp: 50}, vv)
	// G only listens: it reports a radius so that the node gossips to it, accepts and keeps what it is sent
	G := w.newContentPeer(nodeCfg{name: "G", port: 9004, key: detKey(seed, 4), versions: vv, maxUtp: 50}, vv)
	G.acceptGossip, H.acceptGossip, B.acceptGossip = true, true, true
	for _, ni := range V.nets {
		ni.p.AddEnr(H.self())
		ni.p.AddEnr(B.self())
	}
	hpid := string(portalwire.History)
	hv1 := encHeaderWithProof(w1.hdrRLP, make([]byte, 15*32))
	hv2 := encHeaderWithProof(w2.hdrRLP, make([]byte, 15*32))
	switch p.cfg("hdrsrc") {
	case 0:
		hs := V.nets["history"]
		hs.store.inner.Put(keyHdrHash(w1.hash), hs.p.ToContentId(keyHdrHash(w1.hash)), hv1)
		hs.store.inner.Put(keyHdrHash(w2.hash), hs.p.ToContentId(keyHdrHash(w2.hash)), hv2)
	case 1:
		H.content[hpid][string(keyHdrHash(w1.hash))] = hv1
		H.content[hpid][string(keyHdrHash(w2.hash))] = hv2
	default:
		// B answers, and lies for unknown hashes: any header request gets block 1's header
		B.content[hpid][string(keyHdrHash(w1.hash))] = hv1
		B.content[hpid][string(keyHdrHash(w2.hash))] = hv2
		B.fallback = func(pid string, k []byte) []byte {
			if pid == hpid && len(k) == 33 && k[0] == 0x00 {
				return hv1
			}
			return nil
		}
	}
	st := V.nets["state"]
	w.spawn("sink-contact", func() error {
		_, e := G.talk(V.self(), portalwire.State, encPing(G.self().Seq(), 0, encRadiusPayload(0, maxU256)))
		return e
	})
	w.runFor(50 * time.Millisecond)
	if p.cfg("faults") == 1 {
		w.res.Class = "net-faults"
		w.net.faultsOn = true
		w.net.faults = netFaults{MinLatency: 2 * time.Millisecond, Jitter: 40 * time.Millisecond, DropPct: 4, DupPct: 3}
	}
	pre := uint64(p.cfg("preempt"))
	if pre > 0 {
		w.res.Class += "+preempt"
		w.net.faults.Quantum = time.Duration(p.cfg("quantum")) * time.Millisecond
		for _, ni := range V.nets {
			if ni.val != nil {
				ni.val.preemptEvery, ni.val.preemptSeed, ni.val.alignMs = pre, seed^0x93e, p.cfg("align")
			}
		}
	}

	type offered struct {
		key, val []byte
		store    []byte
		why      string
		desc     string
	}
	var all []offered
	for opi, op := range p.Ops {
		rs := newPrng(uint64(op.n(3)) + 5)
		kind := op.n(0) % 3
		if op.K == "multi" {
			// one offer carrying an honest item and a corrupted one under another key, in either order
			k1, v1, _ := c13Item(rs, w1, w2, kind, 0)
			k2, v2, _ := c13Item(rs, w1, w2, int64(rs.intn(3)), 0)
			if k1 == nil || k2 == nil || bytes.Equal(k1, k2) {
				continue
			}
			bad := mutate(rs, v2, int(op.n(1)))
			_, whyBad := judgeState(headers, k2, bad)
			keys, vals := [][]byte{k1, k2}, [][]byte{v1, bad}
			if op.n(2)%2 == 1 {
				keys, vals = [][]byte{k2, k1}, [][]byte{bad, v1}
			}
			w.call("offer-multi", 120*time.Second, func() error {
				_, e := B.offerTo(V.self(), portalwire.State, vv, keys, vals)
				return e
			})
			w.runFor(8 * time.Second)
			w.op("multi#%d honest and corrupted item (mutation %d) under two keys in one offer, corrupted %s; oracle for the corrupted one: %s", opi, op.n(1), []string{"second", "first"}[op.n(2)%2], orBound(whyBad))
			w.abstract("multi m%d o%d", op.n(1), op.n(2)%2)
			w.probe("multi_item_offers")
			if len(V.panics) > 0 {
				break
			}
			continue
		}
		if op.K == "dual" {
			key, val, _ := c13Item(rs, w1, w2, kind, 0)
			if key == nil {
				continue
			}
			bad := mutate(rs, val, int(op.n(1)))
			_, whyBad := judgeState(headers, key, bad)
			B.dialDelay = time.Duration(op.n(2)) * time.Millisecond
			t1 := w.spawn("offer-honest", func() error {
				_, e := H.offerTo(V.self(), portalwire.State, vv, [][]byte{key}, [][]byte{val})
				return e
			})
			t2 := w.spawn("offer-corrupted", func() error {
				_, e := B.offerTo(V.self(), portalwire.State, vv, [][]byte{key}, [][]byte{bad})
				return e
			})
			w.runUntil(func() bool { return t1.done && t2.done }, 120*time.Second)
			B.dialDelay = 0
			w.runFor(8 * time.Second)
			w.op("dual#%d kind=%s honest and corrupted (mutation %d, %d ms later) item under one key; oracle for the corrupted one: %s", opi, []string{"account-node", "storage-node", "bytecode"}[kind], op.n(1), op.n(2), orBound(whyBad))
			w.abstract("dual k%d m%d", kind, op.n(1))
			w.probe("dual_offers")
			if len(V.panics) > 0 {
				break
			}
			continue
		}
		mut := int(op.n(1))
		key, val, desc := c13Item(rs, w1, w2, kind, mut)
		if key == nil {
			continue
		}
		store, why := judgeState(headers, key, val)
		if mut == 0 && why != "" {
			fatal2(fmt.Sprintf("c13 oracle self-test: honest item (kind %d) judged invalid: %s", kind, why))
		}
		offerer := []*contentPeer{H, B, B}[op.n(2)%3]
		var acc int
		okc, err := w.call("offer", 120*time.Second, func() error {
			var e error
			acc, e = offerer.offerTo(V.self(), portalwire.State, vv, [][]byte{key}, [][]byte{val})
			return e
		})
		w.runFor(8 * time.Second)
		if desc == "unknown-block-hash" {
			// the same item once more: what was rejected because its header could not be found must not
			// pass the second time on the strength of whatever header the validator looked at last
			w.call("offer-again", 120*time.Second, func() error {
				_, e := offerer.offerTo(V.self(), portalwire.State, vv, [][]byte{key}, [][]byte{val})
				return e
			})
			w.runFor(8 * time.Second)
			w.probe("unknown_block_offered_twice")
		}
		all = append(all, offered{key, val, store, why, desc})
		w.op("offer#%d kind=%s %s (%d bytes) -> accepted=%d ok=%v err=%v; oracle: %s", opi, []string{"account-node", "storage-node", "bytecode"}[kind], desc, len(val), acc, okc, err != nil, orBound(why))
		w.abstract("offer k%d m%d acc%d valid=%v", kind, mut, acc, why == "")
		if why == "" {
			w.probe("offered_valid")
		} else {
			w.probe("offered_invalid")
		}
		if len(V.panics) > 0 {
			break
		}
	}
	w.runUntil(func() bool { return w.inflightTasks == 0 }, 100*time.Second)
	if pre > 0 {
		n, st, ov := uint64(0), 0, 0
		for _, ni := range V.nets {
			if ni.val != nil {
				n += ni.val.preempts
				st += ni.val.stalls
				ov += ni.val.overlaps
			}
		}
		w.res.Faults["preemption"] = int(n)
		if st > 0 {
			w.res.Faults["goroutine_stall"] = st
		}
		w.res.Probes["validations_overlapping"] = ov
	}
	w.runFor(10 * time.Second)
	for _, pr := range V.panics {
		w.violate("C13", "panic", "%s panicked instead of rejecting with an error: %v @ %s", pr.where, pr.val, shisuiFrames(pr.stack))
		w.violate("C01", "panic", "%s panicked: %v @ %s", pr.where, pr.val, shisuiFrames(pr.stack))
	}
	// everything the node passed on to its neighbours must be a valid item
	for _, cp := range []*contentPeer{G, H, B} {
		for _, gi := range cp.gossiped {
			if _, why := judgeState(headers, gi.key, gi.val); why != "" {
				w.violate("C13", "gossiped-invalid", "the node gossiped key %x.. (%d bytes) to %s: %s", head(gi.key, 6), len(gi.val), cp.cfg.name, why)
			} else {
				w.probe("gossiped_valid")
			}
		}
	}
	for _, vr := range st.val.calls {
		if vr.err != nil {
			w.probe("validator_rejected")
			continue
		}
		w.probe("validator_accepted")
		// for bytecode the validator only has to prove the account's code hash; that the code itself
		// hashes to it is enforced when storing, which is judged below
		if _, why := judgeState(headers, vr.key, vr.val); why != "" && why != "the code does not hash to the key's code hash" {
			w.violate("C13", "validated-invalid", "the validator accepted key %x.. (%d bytes): %s", head(vr.key, 6), len(vr.val), why)
		}
	}
	for _, pr := range st.store.puts {
		if pr.err != nil {
			continue
		}
		store, why := judgeState(headers, pr.key, pr.val)
		if why != "" {
			w.violate("C13", "stored-invalid", "stored under key %x.. : %s", head(pr.key, 6), why)
			continue
		}
		got, err := st.store.inner.Get(pr.key, st.p.ToContentId(pr.key))
		if err != nil {
			w.probe("put_ok_but_not_readable")
			continue
		}
		want := append([]byte{4, 0, 0, 0}, store...)
		if !bytes.Equal(got, want) {
			w.violate("C13", "stored-bytes", "key %x..: the store holds %d bytes, expected exactly the final node / code (%d bytes) in its container", head(pr.key, 6), len(got), len(want))
		} else {
			w.probe("stored_exact")
		}
	}
	w.res.Nontrivial = len(all) > 0 || w.res.Probes["dual_offers"] > 0
	w.finish()
}

// c13Item builds one (key, content) pair: an honest item of the given kind put through a semantic
// or byte-level mutation.
func c13Item(rs *prng, w1, w2 *c13world, kind int64, mut int) (key, val []byte, desc string) {
	acct := w1.accts[rs.intn(len(w1.accts))]
	if kind != 0 {
		// needs a contract
		var cs []*c13acct
		for _, a := range w1.accts {
			if a.storage != nil {
				cs = append(cs, a)
			}
		}
		if len(cs) == 0 {
			kind = 0
		} else {
			acct = cs[rs.intn(len(cs))]
		}
	}
	accNodes, accPaths := w1.accounts.nodesOnPath(acct.addrHash)
	blockHash := w1.hash[:]
	desc = "honest"
	var nodes [][]byte // the proof that ends in the target
	var path []byte
	var target []byte
	var accountProof [][]byte
	switch kind {
	case 0:
		i := rs.intn(len(accNodes))
		nodes, path, target = accNodes[:i+1], accPaths[i], accNodes[i]
	case 1:
		sk := acct.storage.keys[rs.intn(len(acct.storage.keys))]
		sn, sp := acct.storage.nodesOnPath(sk)
		i := rs.intn(len(sn))
		nodes, path, target = sn[:i+1], sp[i], sn[i]
		accountProof = accNodes
	default:
		accountProof = accNodes
	}
	nodes = append([][]byte{}, nodes...)
	path = append([]byte{}, path...)
	nodeHash := crypto.Keccak256(target)
	addrHash := append([]byte{}, acct.addrHash...)
	code := append([]byte{}, acct.code...)
	codeHash := crypto.Keccak256(code)
	mutProof := func(p [][]byte) [][]byte {
		p = append([][]byte{}, p...)
		switch mut {
		case 2:
			desc = "first-node-dropped"
			if len(p) > 0 {
				p = p[1:]
			}
		case 3:
			desc = "middle-node-dropped"
			if len(p) > 2 {
				i := 1 + rs.intn(len(p)-2)
				p = append(p[:i:i], p[i+1:]...)
			}
		case 4:
			desc = "last-node-dropped"
			if len(p) > 0 {
				p = p[:len(p)-1]
			}
		case 5:
			desc = "surplus-node-appended"
			if len(p) > 0 && rs.chance(50) {
				p = append(p, p[len(p)-1])
			} else {
				extra, _ := w2.accounts.nodesOnPath(w2.accts[0].addrHash)
				p = append(p, extra[len(extra)-1])
			}
		case 6:
			desc = "two-nodes-swapped"
			if len(p) > 1 {
				i := rs.intn(len(p) - 1)
				p[i], p[i+1] = p[i+1], p[i]
			}
		case 9:
			desc = "node-bytes-flipped"
			if len(p) > 0 {
				i := rs.intn(len(p))
				n := append([]byte{}, p[i]...)
				n[rs.intn(len(n))] ^= 1 << uint(rs.intn(8))
				p[i] = n
			}
		case 13:
			desc = "proof-of-another-key"
			other := w1.accts[rs.intn(len(w1.accts))]
			p, _ = w1.accounts.nodesOnPath(other.addrHash)
		case 14:
			desc = "crafted-empty-key-short-node"
			// a short node with an empty compact key, hash-linked from nothing: must be rejected
			bad, _ := rlp.EncodeToBytes([]any{[]byte{}, []byte{1, 2, 3}})
			p = append(p, bad)
		}
		return p
	}
	switch mut {
	case 18:
		// a block nobody knows: the header lookup fails
		desc = "unknown-block-hash"
		blockHash = rs.bytes(32)
	case 19:
		// the genuine proof down to a storage leaf whose value happens to be the hash of a forged node,
		// followed by that node, under a key naming the full path and the forged node's hash
		if a0 := w1.accts[0]; kind == 1 && a0.forgedNode != nil {
			desc = "forged-node-after-leaf"
			acct = a0
			accNodes, _ = w1.accounts.nodesOnPath(acct.addrHash)
			accountProof = accNodes
			addrHash = append([]byte{}, acct.addrHash...)
			sn, _ := acct.storage.nodesOnPath(acct.forgedSlotKey)
			nodes = append(append([][]byte{}, sn...), acct.forgedNode)
			path = hashNibbles(acct.forgedSlotKey)
			nodeHash = crypto.Keccak256(acct.forgedNode)
		}
	case 1:
		desc = "other-block-hash"
		blockHash = w2.hash[:]
	case 7:
		desc = "path-altered"
		switch rs.intn(3) {
		case 0:
			if len(path) > 0 {
				// half of the time the last nibble: the last nibble of an extension key when the node
				// before the target is an extension node
				i := rs.intn(len(path))
				if rs.chance(50) {
					i = len(path) - 1
				}
				path[i] ^= byte(1 + rs.intn(15))
			} else {
				path = append(path, byte(rs.intn(16)))
			}
		case 1:
			path = append(path, byte(rs.intn(16)))
		default:
			if len(path) > 0 {
				path = path[:len(path)-1]
			} else {
				path = append(path, 3)
			}
		}
	case 8:
		desc = "node-hash-altered"
		nodeHash = append([]byte{}, nodeHash...)
		nodeHash[rs.intn(32)] ^= 0x10
	case 10:
		desc = "address-hash-altered"
		addrHash[rs.intn(32)] ^= 0x04
	case 15:
		desc = "code-altered"
		if len(code) > 0 {
			code[rs.intn(len(code))] ^= 0x01
		}
	case 16:
		// a self-consistent forgery: other code, and the key names that code's hash; only the proven
		// account's code hash gives it away
		desc = "forged-code-with-matching-key-hash"
		code = rs.bytes(1 + rs.intn(300))
		codeHash = crypto.Keccak256(code)
	case 17:
		// same for trie nodes: a genuine node of another path offered with a key naming its own hash
		desc = "other-node-with-matching-key-hash"
		other := w1.accts[rs.intn(len(w1.accts))]
		on, _ := w1.accounts.nodesOnPath(other.addrHash)
		if len(nodes) > 0 && len(on) > 0 {
			nodes[len(nodes)-1] = on[len(on)-1]
			nodeHash = crypto.Keccak256(on[len(on)-1])
		}
	}
	nib, err := state.FromUnpackedNibbles(path)
	if err != nil {
		return nil, nil, ""
	}
	switch kind {
	case 0:
		key = append([]byte{state.AccountTrieNodeType}, sszBytes(&state.AccountTrieNodeKey{Path: *nib, NodeHash: b32(nodeHash)})...)
		val = sszBytes(&state.AccountTrieNodeWithProof{Proof: toProof(mutProof(nodes)), BlockHash: b32(blockHash)})
	case 1:
		sp, ap := nodes, accountProof
		if rs.chance(50) {
			sp = mutProof(sp)
		} else {
			ap = mutProof(ap)
			if desc != "honest" {
				desc = "account-proof:" + desc
			}
		}
		key = append([]byte{state.ContractStorageTrieNodeType}, sszBytes(&state.ContractStorageTrieNodeKey{AddressHash: b32(addrHash), Path: *nib, NodeHash: b32(nodeHash)})...)
		val = sszBytes(&state.ContractStorageTrieNodeWithProof{StorageProof: toProof(sp), AccountProof: toProof(ap), BlockHash: b32(blockHash)})
	default:
		if mut == 8 {
			codeHash = append([]byte{}, codeHash...)
			codeHash[rs.intn(32)] ^= 0x10
		}
		key = append([]byte{state.ContractByteCodeType}, sszBytes(&state.ContractBytecodeKey{AddressHash: b32(addrHash), CodeHash: b32(codeHash)})...)
		val = sszBytes(&state.ContractBytecodeWithProof{Code: state.ContractByteCode(code), AccountProof: toProof(mutProof(accountProof)), BlockHash: b32(blockHash)})
	}
	switch mut {
	case 11:
		desc = "content-bytes-mutated"
		val = mutate(rs, val, 1+rs.intn(9))
	case 12:
		desc = "key-bytes-mutated"
		key = mutate(rs, key, 1+rs.intn(9))
		if len(key) == 0 {
			key = []byte{state.AccountTrieNodeType}
		}
	}
	if val == nil || key == nil {
		return nil, nil, ""
	}
	return key, val, desc
}
