package sim

import (
	"bytes"
	"context"
	"crypto/ecdsa"
	"encoding/binary"
	"errors"
	"fmt"
	"net"
	"sort"
	"time"

	"github.com/ethereum/go-ethereum/p2p/enode"
	"github.com/ethereum/go-ethereum/p2p/enr"
	"github.com/ethereum/go-ethereum/rlp"
	"github.com/zen-eth/shisui/portalwire"
)

// A puppet is a peer whose portal-level behaviour is decided by the simulator: real discv5
// (handshake, encryption, request matching) and real uTP underneath, but every TALKREQ it
// receives on a portal protocol id is answered by a harness function, and it can send any
// byte string as a TALKREQ.

type talkFn func(from *enode.Node, addr *net.UDPAddr, msg []byte) []byte

type puppetReq struct {
	proto string
	from  enode.ID
	msg   []byte
	at    time.Duration
}

type puppet struct {
	*baseNode
	handlers map[string]talkFn
	reqs     []puppetReq
}

var portalProtos = []portalwire.ProtocolId{portalwire.History, portalwire.State, portalwire.Beacon}

func (w *world) newPuppet(cfg nodeCfg) *puppet {
	b := w.newBase(cfg)
	p := &puppet{baseNode: b, handlers: map[string]talkFn{}}
	if err := b.utp.Start(); err != nil {
		fatal2("puppet utp: " + err.Error())
	}
	for _, id := range portalProtos {
		pid := string(id)
		b.disc.RegisterTalkHandler(pid, func(from *enode.Node, addr *net.UDPAddr, msg []byte) []byte {
			p.reqs = append(p.reqs, puppetReq{proto: pid, from: from.ID(), msg: append([]byte(nil), msg...), at: w.now()})
			if h := p.handlers[pid]; h != nil {
				return h(from, addr, msg)
			}
			return nil
		})
	}
	return p
}

// talk sends an arbitrary TALKREQ and waits for the response (call from a task).
func (p *puppet) talk(to *enode.Node, proto portalwire.ProtocolId, msg []byte) ([]byte, error) {
	return p.disc.TalkRequest(to, string(proto), msg)
}

// ---------- independent wire helpers (the harness' own encoders / decoders) ----------

func leb128(n uint32) []byte {
	var out []byte
	for {
		b := byte(n & 0x7f)
		n >>= 7
		if n != 0 {
			out = append(out, b|0x80)
		} else {
			out = append(out, b)
			return out
		}
	}
}

func unleb128(b []byte) (uint64, int, error) {
	var v uint64
	for i := 0; i < len(b) && i < 10; i++ {
		v |= uint64(b[i]&0x7f) << (7 * uint(i))
		if b[i]&0x80 == 0 {
			return v, i + 1, nil
		}
	}
	return 0, 0, errors.New("bad varint")
}

// frameItems is the harness' own encoder of an offer stream.
func frameItems(items [][]byte) []byte {
	var out []byte
	for _, it := range items {
		out = append(out, leb128(uint32(len(it)))...)
		out = append(out, it...)
	}
	return out
}

// unframeItems is the harness' own splitter of an offered-content stream (LEB128 length + bytes, repeated).
func unframeItems(data []byte) ([][]byte, bool) {
	var out [][]byte
	for len(data) > 0 {
		n, hdr, err := unleb128(data)
		if err != nil || uint64(len(data)-hdr) < n {
			return nil, false
		}
		out = append(out, data[hdr:hdr+int(n)])
		data = data[hdr+int(n):]
	}
	return out, true
}

func encFindContent(key []byte) []byte {
	// SSZ container with one variable field: 4-byte offset (=4) then the bytes
	out := []byte{portalwire.FINDCONTENT, 4, 0, 0, 0}
	return append(out, key...)
}

func encOffer(keys [][]byte) []byte {
	// container{ list[bytelist] }: offset 4, then list of offsets, then data
	out := []byte{portalwire.OFFER, 4, 0, 0, 0}
	off := 4 * len(keys)
	var offs, data []byte
	for _, k := range keys {
		var o [4]byte
		binary.LittleEndian.PutUint32(o[:], uint32(off))
		offs = append(offs, o[:]...)
		data = append(data, k...)
		off += len(k)
	}
	out = append(out, offs...)
	return append(out, data...)
}

func encFindNodes(dists []uint16) []byte {
	out := []byte{portalwire.FINDNODES, 4, 0, 0, 0}
	for _, d := range dists {
		out = append(out, byte(d), byte(d>>8))
	}
	return out
}

func encPing(seq uint64, ptype uint16, payload []byte) []byte {
	out := []byte{portalwire.PING}
	var b [8]byte
	binary.LittleEndian.PutUint64(b[:], seq)
	out = append(out, b[:]...)
	out = append(out, byte(ptype), byte(ptype>>8))
	out = append(out, 14, 0, 0, 0)
	return append(out, payload...)
}

func encPong(seq uint64, ptype uint16, payload []byte) []byte {
	out := encPing(seq, ptype, payload)
	out[0] = portalwire.PONG
	return out
}

// decEnrList decodes an SSZ list of byte lists (offset table then data).
func decByteLists(b []byte) ([][]byte, error) {
	if len(b) == 0 {
		return nil, nil
	}
	if len(b) < 4 {
		return nil, errors.New("short list")
	}
	first := int(binary.LittleEndian.Uint32(b))
	if first%4 != 0 || first > len(b) || first == 0 {
		return nil, errors.New("bad first offset")
	}
	n := first / 4
	offs := make([]int, n+1)
	for i := 0; i < n; i++ {
		offs[i] = int(binary.LittleEndian.Uint32(b[4*i:]))
	}
	offs[n] = len(b)
	var out [][]byte
	for i := 0; i < n; i++ {
		if offs[i] > offs[i+1] || offs[i+1] > len(b) {
			return nil, errors.New("bad offsets")
		}
		out = append(out, b[offs[i]:offs[i+1]])
	}
	return out, nil
}

// contentReply is the harness' own decoding of a CONTENT response.
type contentReply struct {
	kind   string // "raw", "connid", "enrs", "empty", "bad"
	raw    []byte
	connID uint16
	enrs   []*enode.Node
	enrRaw [][]byte
	badWhy string
}

func decContent(resp []byte) contentReply {
	if len(resp) == 0 {
		return contentReply{kind: "empty"}
	}
	if resp[0] != portalwire.CONTENT || len(resp) < 2 {
		return contentReply{kind: "bad", badWhy: "not a CONTENT message"}
	}
	body := resp[2:]
	switch resp[1] {
	case portalwire.ContentRawSelector:
		return contentReply{kind: "raw", raw: body}
	case portalwire.ContentConnIdSelector:
		if len(body) != 2 {
			return contentReply{kind: "bad", badWhy: "connection id not 2 bytes"}
		}
		return contentReply{kind: "connid", connID: binary.BigEndian.Uint16(body)}
	case portalwire.ContentEnrsSelector:
		lists, err := decByteLists(body)
		if err != nil {
			return contentReply{kind: "bad", badWhy: "enr list: " + err.Error()}
		}
		r := contentReply{kind: "enrs", enrRaw: lists}
		for _, l := range lists {
			n, err := decodeENR(l)
			if err != nil {
				return contentReply{kind: "bad", badWhy: "enr: " + err.Error()}
			}
			r.enrs = append(r.enrs, n)
		}
		return r
	}
	return contentReply{kind: "bad", badWhy: "unknown selector"}
}

// fetchUtp dials the announced connection id and reads the whole stream.
func (b *baseNode) fetchUtp(peer *enode.Node, connID uint16, timeout time.Duration) ([]byte, error) {
	ctx, cancel := context.WithTimeout(context.Background(), timeout)
	defer cancel()
	st, err := b.utp.DialWithCid(ctx, peer, connID)
	if err != nil {
		return nil, fmt.Errorf("dial: %w", err)
	}
	defer st.Close()
	var data []byte
	if _, err := st.ReadToEOF(ctx, &data); err != nil {
		return nil, fmt.Errorf("read: %w", err)
	}
	return data, nil
}

// highestCommon is the harness' own version rule.
func highestCommon(mine, theirs []uint8, theirsSet bool) (uint8, bool) {
	if !theirsSet {
		return mine[0], true
	}
	best, ok := uint8(0), false
	for _, a := range mine {
		for _, b := range theirs {
			if a == b && (!ok || a > best) {
				best, ok = a, true
			}
		}
	}
	return best, ok
}

// ---------- fake table fillers ----------

type fakePeer struct {
	key  *ecdsa.PrivateKey
	node *enode.Node
}

// bigEntry pads an ENR up to the 300-byte limit.
type bigEntry []byte

func (bigEntry) ENRKey() string { return "zz" }

// makeENR signs a record for key at ip:port with seq; pad > 0 adds a filler entry.
func makeENR(key *ecdsa.PrivateKey, ip net.IP, port int, seq uint64, pad int, extra ...enr.Entry) *enode.Node {
	var r enr.Record
	if ip != nil {
		r.Set(enr.IP(ip))
	}
	if port != 0 {
		r.Set(enr.UDP(port))
	}
	if pad > 0 {
		r.Set(bigEntry(bytes.Repeat([]byte{0xab}, pad)))
	}
	for _, e := range extra {
		r.Set(e)
	}
	r.SetSeq(seq)
	if err := enode.SignV4(&r, key); err != nil {
		fatal2("sign enr: " + err.Error())
	}
	n, err := enode.New(enode.ValidSchemes, &r)
	if err != nil {
		fatal2("enr new: " + err.Error())
	}
	return n
}

// maxPad finds the largest filler that keeps the signed record within 300 bytes.
func maxPadENR(key *ecdsa.PrivateKey, ip net.IP, port int) *enode.Node {
	for pad := 170; pad > 0; pad-- {
		var r enr.Record
		r.Set(enr.IP(ip))
		r.Set(enr.UDP(port))
		r.Set(bigEntry(bytes.Repeat([]byte{0xab}, pad)))
		r.SetSeq(1)
		if err := enode.SignV4(&r, key); err != nil {
			continue // too big
		}
		n, err := enode.New(enode.ValidSchemes, &r)
		if err == nil {
			return n
		}
	}
	return makeENR(key, ip, port, 1, 0)
}

// keysAtDistance searches deterministic keys whose id is at the given log distance from base.
func keysAtDistance(seed uint64, base enode.ID, want map[int]int, startIdx int) map[int][]*ecdsa.PrivateKey {
	out := map[int][]*ecdsa.PrivateKey{}
	need := 0
	for _, n := range want {
		need += n
	}
	for i := startIdx; need > 0 && i < startIdx+200000; i++ {
		k := detKey(seed^0x77aa, i)
		id := enode.PubkeyToIDV4(&k.PublicKey)
		d := enode.LogDist(base, id)
		if want[d] > len(out[d]) {
			out[d] = append(out[d], k)
			need--
		}
	}
	return out
}

func sortedByLogDist(nodes []*enode.Node, target enode.ID) []*enode.Node {
	out := append([]*enode.Node(nil), nodes...)
	sort.SliceStable(out, func(i, j int) bool {
		return enode.LogDist(out[i].ID(), target) < enode.LogDist(out[j].ID(), target)
	})
	return out
}

func decodeENR(b []byte) (*enode.Node, error) {
	var r enr.Record
	if err := rlpDecode(b, &r); err != nil {
		return nil, err
	}
	return enode.New(enode.ValidSchemes, &r)
}

func rlpDecode(b []byte, v any) error { return rlp.DecodeBytes(b, v) }
