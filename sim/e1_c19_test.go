package sim

import (
	"bytes"
	"context"
	"fmt"
	"net"
	"time"

	"github.com/ethereum/go-ethereum/common/hexutil"
	"github.com/ethereum/go-ethereum/p2p/enode"
	"github.com/zen-eth/shisui/portalwire"
)

// C19 — peers settle on the highest common protocol version and frame data accordingly.

func init() { engines["c19"] = runC19 }

// advertised sets; nil = no pv entry; index 10 = malformed entry
var c19Sets = [][]uint8{{0}, {1}, {0, 1}, {2}, {0, 2}, {1, 2}, {0, 1, 2}, {1, 0}, {3, 7, 255}, nil, nil, {0, 1, 64}, {200, 1}, {63, 64, 1}}

const c19Malformed = 10

func c19Name(i int) string {
	switch {
	case i == 9:
		return "none"
	case i == c19Malformed:
		return "malformed"
	}
	return fmt.Sprint(c19Sets[i])
}

// builtin is what a node without its own pv entry believes it supports.
var c19Builtin = []uint8{0, 1}

func genC19(r *prng) *plan {
	p := &plan{Cfg: map[string]int64{}}
	idx := int(envInt("VERIF_RUNIDX", int64(r.intn(1<<20))))
	// first sweep: every ordered pair, real<->puppet (9 x 11) then real<->real (9 x 9)
	realSets := []int{0, 1, 2, 3, 4, 5, 6, 7, 9, 8, 11, 12, 13}
	n1 := len(realSets) * len(c19Sets)
	n2 := len(realSets) * len(realSets)
	k := idx % (n1 + n2)
	if k < n1 {
		p.Cfg["mode"] = 0
		p.Cfg["a"] = int64(realSets[k/len(c19Sets)])
		p.Cfg["b"] = int64(k % len(c19Sets))
	} else {
		k -= n1
		p.Cfg["mode"] = 1
		p.Cfg["a"] = int64(realSets[k/len(realSets)])
		p.Cfg["b"] = int64(realSets[k%len(realSets)])
	}
	p.Cfg["size"] = int64(1500 + r.intn(30000))
	p.Cfg["nkeys"] = int64(2 + r.intn(5))
	if r.chance(50) {
		p.Cfg["decl"] = int64(r.intn(64))
	}
	// restart story (real <-> puppet, second sweep onwards): after the exchanges the peer restarts under the
	// same key advertising another set; the node still holds the old record in its table when the peer's next
	// requests arrive with the new one
	if p.Cfg["mode"] == 0 && idx >= n1+n2 && r.chance(50) {
		p.Cfg["restart"] = 1
		p.Cfg["b2"] = int64([]int{0, 1, 2, 7}[r.intn(4)])
	}
	if p.Cfg["mode"] == 0 && idx >= n1+n2 && p.Cfg["restart"] == 0 && r.chance(60) {
		// afterwards a second peer that advertises no versions at all: the node's base version is its own
		// first-listed one, whatever it negotiated with others before
		p.Cfg["second"] = 1
	}
	p.Ops = []opSpec{{K: "offer_in"}, {K: "find_in"}, {K: "offer_out"}, {K: "find_out"}}
	// random order of the four exchanges
	for i := len(p.Ops) - 1; i > 0; i-- {
		j := r.intn(i + 1)
		p.Ops[i], p.Ops[j] = p.Ops[j], p.Ops[i]
	}
	return p
}

// expected version computed by a node with list mine about a peer advertising theirs.
func c19Expect(mine []uint8, theirsIdx int) (ver uint8, ok bool, known bool) {
	if mine == nil {
		mine = c19Builtin
	}
	switch theirsIdx {
	case 9:
		return mine[0], true, true
	case c19Malformed:
		return 0, false, false // not pinned by the statement
	}
	v, ok := highestCommon(mine, c19Sets[theirsIdx], true)
	return v, ok, true
}

func runC19(seed uint64) {
	p := loadOrGenPlan("c19", seed, genC19)
	w := newWorld(seed, "C19", "c19")
	w.res.Class = "fault-free"
	ai, bi := int(p.cfg("a")), int(p.cfg("b"))
	mode := p.cfg("mode")
	size := p.cfg("size")
	V := w.newBase(nodeCfg{name: "V", port: 9001, key: detKey(seed, 1), versions: c19Sets[ai], maxUtp: 20, capacityMB: 100})
	vp := V.newPlainProto(portalwire.History)
	bigKey := append([]byte{0x01}, w.rng.bytes(20)...)
	bigVal := valueFor(int64(seed)+5, size)
	if err := vp.p.Put(bigKey, vp.p.ToContentId(bigKey), bigVal); err != nil {
		fatal2("c19 put: " + err.Error())
	}
	nk := int(p.cfg("nkeys"))
	var keys, items [][]byte
	for i := 0; i < nk; i++ {
		keys = append(keys, append([]byte{0x01}, newPrng(seed+uint64(i)*31).bytes(16)...))
		items = append(items, valueFor(int64(seed)+int64(i)*17, int64(200+i*700)))
	}
	w.op("pairing V=%s peer=%s mode=%d", c19Name(ai), c19Name(bi), mode)
	w.abstract("pair %d %d %d", ai, bi, mode)

	if mode == 1 {
		c19RealReal(w, p, V, vp, ai, bi, bigKey, bigVal, keys, items)
		w.res.Nontrivial = true
		w.finish()
	}
	// ---- real V <-> puppet P ----
	ncfg := nodeCfg{name: "P", port: 9002, key: detKey(seed, 2), versions: c19Sets[bi], maxUtp: 20}
	if bi == c19Malformed {
		ncfg.pvRaw = []byte{0x83, 'a', 'b', 'c'} // an RLP string where a list of uint8 is expected... a byte string decodes as []uint8 too
		ncfg.pvRaw = []byte{0xc2, 0xc0, 0xc0}    // list of two empty lists: not a list of uint8
	}
	P := w.newPuppet(ncfg)
	vMine := c19Sets[ai]
	ver, ok, known := c19Expect(vMine, bi)
	supported := ok && ver <= 1
	unimplemented := ok && ver > 1 // agreement only: nothing is asserted about transfers (DESIGN.md section 6)
	refusedInbound := false
	// noCommon classifies an exchange when the two sets share no version
	noCommon := func(inbound, transferred bool, what string) {
		if !transferred {
			refusedInbound = true // either direction: the session node is the cache key for both
			return
		}
		if refusedInbound {
			// the first inbound exchange was refused, this later one went through: the failed
			// negotiation was cached as version 0
			w.violate("C19", "error-cached-as-version-0", "V advertises %s, peer %s share no version: the first request was refused, but a later one was served as version 0 (%s)", c19Name(ai), c19Name(bi), what)
			return
		}
		w.violate("C19", "transfer-without-common-version", "V advertises %s, peer %s share no version, yet %s", c19Name(ai), c19Name(bi), what)
	}
	// P's own framing for what it serves: the version V must have computed
	tr := newOfferTracker()
	pBig := valueFor(int64(seed)+99, size)
	pBigKey := append([]byte{0x01}, w.rng.bytes(24)...)
	var gotOffer [][]byte
	declMask := int(p.cfg("decl")) & (1<<uint(len(keys)) - 2) // the first key is never declined, so something is always accepted
	P.handlers[string(portalwire.History)] = func(from *enode.Node, addr *net.UDPAddr, msg []byte) []byte {
		if len(msg) == 0 {
			return nil
		}
		switch msg[0] {
		case portalwire.OFFER:
			ks, err := decOfferKeys(msg)
			if err != nil {
				return nil
			}
			all := make([]bool, len(ks))
			for i := range all {
				// the peer declines the keys the plan names (never all of them): the stream must carry the
				// contents of exactly the accepted ones, in order
				all[i] = declMask&(1<<uint(i)) == 0
			}
			cid := P.utp.CidWithAddr(from, addr, false)
			go func() {
				ctx, cancel := context.WithTimeout(context.Background(), 30*time.Second)
				defer cancel()
				st, err := P.utp.AcceptWithCid(ctx, cid)
				if err != nil {
					return
				}
				var data []byte
				rctx, rcancel := context.WithTimeout(context.Background(), 100*time.Second)
				defer rcancel()
				if _, err := st.ReadToEOF(rctx, &data); err == nil {
					gotOffer = append(gotOffer, data)
				}
				st.Close()
			}()
			return encAccept(ver, cid.Send, all)
		case portalwire.FINDCONTENT:
			cid := P.utp.CidWithAddr(from, addr, false)
			go func() {
				ctx, cancel := context.WithTimeout(context.Background(), 30*time.Second)
				defer cancel()
				st, err := P.utp.AcceptWithCid(ctx, cid)
				if err != nil {
					return
				}
				payload := pBig
				if ver == 1 {
					payload = append(leb128(uint32(len(pBig))), pBig...)
				}
				wctx, wcancel := context.WithTimeout(context.Background(), 100*time.Second)
				defer wcancel()
				st.Write(wctx, payload)
				st.Close()
			}()
			return []byte{portalwire.CONTENT, portalwire.ContentConnIdSelector, byte(cid.Send >> 8), byte(cid.Send)}
		}
		return nil
	}
	_ = tr
	w.runFor(30 * time.Millisecond)
	for _, op := range p.Ops {
		switch op.K {
		case "offer_in": // P offers to V: V's ACCEPT encoding shows the version V computed
			var resp []byte
			okc, err := w.call("offer_in", 10*time.Second, func() error {
				var e error
				resp, e = P.talk(V.self(), portalwire.History, encOffer(keys))
				return e
			})
			if !okc || err != nil {
				w.violate("C19", "no-reply", "raw OFFER got no reply at all: %v", err)
				continue
			}
			if !known {
				w.op("offer_in malformed pv -> %d byte reply", len(resp))
				continue
			}
			if unimplemented {
				continue
			}
			if !supported {
				w.op("offer_in -> %d byte reply (no common version)", len(resp))
				noCommon(true, len(resp) != 0, fmt.Sprintf("the OFFER got a %d-byte reply instead of an empty one", len(resp)))
				w.probe("offer_in_refused")
				continue
			}
			// encoding check: the body after connection id and offset is n bytes in v1, ceil((n+1)/8) in v0
			a := decAccept(ver, resp)
			bodyLen := len(resp) - 7
			wantLen := len(keys)
			if ver == 0 {
				wantLen = len(keys)/8 + 1
			}
			w.op("offer_in -> ACCEPT body %d bytes, expected v%d (%d bytes)", bodyLen, ver, wantLen)
			if !a.ok || bodyLen != wantLen || len(a.codes) != len(keys) {
				w.violate("C19", "accept-encoding", "V advertises %s, peer %s: highest common version is %d, but the ACCEPT for %d keys has a %d-byte verdict field (v%d needs %d)", c19Name(ai), c19Name(bi), ver, len(keys), bodyLen, ver, wantLen)
				continue
			}
			w.probe(fmt.Sprintf("offer_in_v%d", ver))
		case "find_in": // P asks V for the large item: framing shows the version
			var resp []byte
			okc, err := w.call("find_in", 10*time.Second, func() error {
				var e error
				resp, e = P.talk(V.self(), portalwire.History, encFindContent(bigKey))
				return e
			})
			if !okc || err != nil {
				w.violate("C19", "no-reply", "raw FINDCONTENT got no reply: %v", err)
				continue
			}
			rep := decContent(resp)
			if rep.kind != "connid" {
				w.violate("C19", "find-reply", "FINDCONTENT for a %d-byte item was not answered with a connection id (%s)", len(bigVal), rep.kind)
				continue
			}
			var data []byte
			okc, err = w.call("find_in_utp", 150*time.Second, func() error {
				var e error
				data, e = P.fetchUtp(V.self(), rep.connID, 100*time.Second)
				return e
			})
			if !known {
				continue
			}
			if unimplemented {
				continue
			}
			if !supported {
				w.op("find_in -> transfer err=%v (%d bytes) without common version", err, len(data))
				noCommon(true, err == nil && len(data) > 0, fmt.Sprintf("%d bytes were transferred for a FINDCONTENT", len(data)))
				w.probe("find_in_refused")
				continue
			}
			if err != nil {
				w.violate("C19", "transfer-failed", "V advertises %s, peer %s (common version %d): the large FINDCONTENT transfer failed: %v", c19Name(ai), c19Name(bi), ver, err)
				continue
			}
			want := bigVal
			if ver == 1 {
				want = append(leb128(uint32(len(bigVal))), bigVal...)
			}
			w.op("find_in -> %d stream bytes, expected v%d framing (%d bytes)", len(data), ver, len(want))
			if !bytes.Equal(data, want) {
				w.violate("C19", "utp-framing", "V advertises %s, peer %s: highest common version is %d, but the stream (%d bytes) is not the v%d framing of the %d-byte item", c19Name(ai), c19Name(bi), ver, len(data), ver, len(bigVal))
				continue
			}
			w.probe(fmt.Sprintf("find_in_v%d", ver))
		case "offer_out": // V offers to P, P answers in the expected encoding: V must understand it
			var acc string
			var items2 [][2]string
			for i := range keys {
				items2 = append(items2, [2]string{hexutil.Encode(keys[i]), hexutil.Encode(items[i])})
			}
			okc, err := w.call("offer_out", 20*time.Second, func() error {
				var e error
				acc, e = vp.api.Offer(P.enr(), items2)
				return e
			})
			if !okc {
				w.violate("C19", "call-hung", "Offer did not return")
				continue
			}
			if !known {
				continue
			}
			if unimplemented {
				continue
			}
			if !supported {
				w.op("offer_out -> err=%v (no common version)", err)
				noCommon(false, err == nil, "Offer succeeded ("+acc+")")
				w.probe("offer_out_refused")
				continue
			}
			if err != nil {
				w.violate("C19", "accept-parse", "V advertises %s, peer %s: the peer answered with a v%d ACCEPT (highest common version) but Offer failed: %v", c19Name(ai), c19Name(bi), ver, err)
				continue
			}
			n0 := len(gotOffer)
			w.runUntil(func() bool { return len(gotOffer) > n0 }, 60*time.Second)
			if len(gotOffer) == n0 {
				w.violate("C19", "transfer-failed", "V advertises %s, peer %s (v%d): accepted offer content never arrived", c19Name(ai), c19Name(bi), ver)
				continue
			}
			var accItems [][]byte
			for i := range items {
				if declMask&(1<<uint(i)) == 0 {
					accItems = append(accItems, items[i])
				}
			}
			if !bytes.Equal(gotOffer[len(gotOffer)-1], frameItems(accItems)) {
				w.violate("C19", "offer-stream", "offer stream (%d bytes) is not the framing of the %d accepted items (of %d offered)", len(gotOffer[len(gotOffer)-1]), len(accItems), len(items))
				w.violate("C09", "offered-stream-items", "the peer accepted %d of %d offered keys (declined mask %b): the stream the node sent (%d bytes) is not the contents of the accepted keys in order", len(accItems), len(items), declMask, len(gotOffer[len(gotOffer)-1]))
				continue
			}
			if declMask != 0 {
				w.probe("offer_out_partly_declined")
			}
			w.op("offer_out -> accepted %s, stream ok", acc)
			w.probe(fmt.Sprintf("offer_out_v%d", ver))
		case "find_out": // V asks P for a large item; P frames it in the expected version
			var res any
			okc, err := w.call("find_out", 200*time.Second, func() error {
				var e error
				res, e = vp.api.FindContent(P.enr(), hexutil.Encode(pBigKey))
				return e
			})
			if !okc {
				w.violate("C19", "call-hung", "FindContent did not return")
				continue
			}
			if !known {
				continue
			}
			ci, _ := res.(*portalwire.ContentInfo)
			if unimplemented {
				continue
			}
			if !supported {
				w.op("find_out -> err=%v", err)
				noCommon(false, err == nil && ci != nil, "FindContent returned content")
				w.probe("find_out_refused")
				continue
			}
			if err != nil || ci == nil {
				w.violate("C19", "utp-framing", "V advertises %s, peer %s: the peer framed the stream for version %d (highest common) but FindContent failed: %v", c19Name(ai), c19Name(bi), ver, err)
				continue
			}
			got, _ := hexutil.Decode(ci.Content)
			if !bytes.Equal(got, pBig) {
				w.violate("C19", "utp-framing", "V advertises %s, peer %s (v%d): FindContent returned %d bytes, the item has %d: %s", c19Name(ai), c19Name(bi), ver, len(got), len(pBig), diffSummary(got, pBig))
				continue
			}
			w.op("find_out -> %d bytes ok (v%d)", len(got), ver)
			w.probe(fmt.Sprintf("find_out_v%d", ver))
		}
	}
	// the version the node settled on, as it recorded it in the versions cache it was given: the highest
	// common one whenever there is one, also where no framing exists for it (nothing else shows what was
	// computed for versions above 1)
	if known && ok {
		for _, k := range V.vcache.Keys() {
			if k.ID() != P.id() {
				continue
			}
			if got, found := V.vcache.Peek(k); found && got != ver {
				w.violate("C19", "negotiated-version", "V advertises %s, the peer %s: the highest common version is %d, the node recorded %d for this peer", c19Name(ai), c19Name(bi), ver, got)
			} else if found {
				w.probe("negotiated_version_recorded")
			}
		}
	}
	if bi2 := int(p.cfg("b2")); p.cfg("restart") == 1 && bi <= 7 {
		c19Restart(w, V, P, ncfg, vMine, ai, bi, bi2, keys, bigKey, bigVal)
	} else if p.cfg("second") == 1 {
		c19SecondPeer(w, V, vMine, ai, bi, keys, bigKey, bigVal)
	}
	w.res.Nontrivial = true
	w.finish()
}

// c19Restart: the peer goes away and comes back under the same key and address advertising another version
// set (a restart after an upgrade). Its record in the node's table is still the old one; the requests it now
// sends carry the new one (handshake), and the node must settle on the version the two sets share now.
func c19Restart(w *world, V *baseNode, P *puppet, ncfg nodeCfg, vMine []uint8, ai, bi, bi2 int, keys [][]byte, bigKey, bigVal []byte) {
	ver2, ok2, _ := c19Expect(vMine, bi2)
	if !ok2 || ver2 > 1 {
		return
	}
	P.shutdown()
	w.fault("peer_restart_new_versions")
	created := false
	lastNodeSend := time.Duration(-1 << 62)
	ncfg.versions = c19Sets[bi2]
	// Who speaks first after the restart decides which record the node's discv5 session carries: when the
	// restarted peer initiates, its handshake delivers the new record; when the node itself happens to ping
	// first (table revalidation), the session is built on the record the node already had and only a later
	// handshake can replace it - the node cannot know better then. The story is judged only in the first case.
	first := ""
	prevOnSend := w.net.onSend
	w.net.onSend = func(d *datagram) {
		if (d.from == V.sock.addr || d.to == V.sock.addr) && (d.from.Port() == uint16(ncfg.port) || d.to.Port() == uint16(ncfg.port)) {
			switch {
			case !created && d.from == V.sock.addr:
				lastNodeSend = w.now() // towards the peer while it is down: may still be in flight when it is back
			case created && first == "" && d.from == V.sock.addr:
				first = "node"
			case created && first == "":
				first = "peer"
			}
		}
		if prevOnSend != nil {
			prevOnSend(d)
		}
	}
	defer func() { w.net.onSend = prevOnSend }()
	w.runFor(200 * time.Millisecond)
	if w.now()-lastNodeSend < 50*time.Millisecond {
		first = "node" // a datagram of the node may reach the new instance before it has spoken
	}
	created = true
	P2 := w.newPuppet(ncfg)
	if P2.self().Seq() <= P.self().Seq() {
		fatal2("c19 restart: the restarted peer's record is not newer")
	}
	w.op("peer restarts advertising %s (was %s): common version now %d", c19Name(bi2), c19Name(bi), ver2)
	w.abstract("restart %d->%d", bi, bi2)
	var resp []byte
	okc, err := w.call("offer_in2", 10*time.Second, func() error {
		var e error
		resp, e = P2.talk(V.self(), portalwire.History, encOffer(keys))
		return e
	})
	if first != "peer" {
		w.probe("restart_story_node_spoke_first")
		return
	}
	if !okc || err != nil {
		// both sides starting a handshake at the same moment (the node's own ping crossing the peer's first
		// packet) loses the request: discv5 behaviour, not the subject here
		w.probe("restart_story_first_request_lost")
		return
	}
	a := decAccept(ver2, resp)
	bodyLen, wantLen := len(resp)-7, len(keys)
	if ver2 == 0 {
		wantLen = len(keys)/8 + 1
	}
	if !a.ok || bodyLen != wantLen || len(a.codes) != len(keys) {
		w.violate("C19", "accept-encoding", "V advertises %s, the peer restarted advertising %s (was %s): highest common version is now %d, but the ACCEPT for %d keys has a %d-byte verdict field (v%d needs %d)", c19Name(ai), c19Name(bi2), c19Name(bi), ver2, len(keys), bodyLen, ver2, wantLen)
	} else {
		w.probe(fmt.Sprintf("restart_offer_in_v%d", ver2))
	}
	okc, err = w.call("find_in2", 10*time.Second, func() error {
		var e error
		resp, e = P2.talk(V.self(), portalwire.History, encFindContent(bigKey))
		return e
	})
	if !okc || err != nil {
		w.violate("C19", "no-reply", "after the peer's restart its raw FINDCONTENT got no reply: %v", err)
		return
	}
	rep := decContent(resp)
	if rep.kind != "connid" {
		w.violate("C19", "find-reply", "FINDCONTENT for a %d-byte item was not answered with a connection id (%s)", len(bigVal), rep.kind)
		return
	}
	var data []byte
	okc, err = w.call("find_in2_utp", 150*time.Second, func() error {
		var e error
		data, e = P2.fetchUtp(V.self(), rep.connID, 100*time.Second)
		return e
	})
	if !okc || err != nil {
		w.violate("C19", "transfer-failed", "V advertises %s, the peer restarted advertising %s (common version %d): the large FINDCONTENT transfer failed: %v", c19Name(ai), c19Name(bi2), ver2, err)
		return
	}
	want := bigVal
	if ver2 == 1 {
		want = append(leb128(uint32(len(bigVal))), bigVal...)
	}
	if !bytes.Equal(data, want) {
		w.violate("C19", "utp-framing", "V advertises %s, the peer restarted advertising %s (was %s): highest common version is now %d, but the stream (%d bytes) is not the v%d framing of the %d-byte item", c19Name(ai), c19Name(bi2), c19Name(bi), ver2, len(data), ver2, len(bigVal))
	} else {
		w.probe(fmt.Sprintf("restart_find_in_v%d", ver2))
	}
}

func c19RealReal(w *world, p *plan, V *baseNode, vp *proto, ai, bi int, bigKey, bigVal []byte, keys, items [][]byte) {
	B := w.newBase(nodeCfg{name: "B", port: 9002, key: detKey(w.seed, 2), versions: c19Sets[bi], maxUtp: 20, capacityMB: 100})
	bp := B.newPlainProto(portalwire.History)
	w.runFor(30 * time.Millisecond)
	va, oka, _ := c19Expect(c19Sets[ai], bi)
	vb, okb, _ := c19Expect(c19Sets[bi], ai)
	agree := oka && okb && va == vb
	// OFFER between two real nodes is judged for versions 0 and 1: the node answers a version it has no
	// ACCEPT encoding for with ErrUnsupportedVersion by design. The uTP framing of a large FINDCONTENT
	// has no such refusal: whatever version two real nodes settle on, the bytes must get across intact.
	supported := agree && va <= 1
	supportedFind := agree
	w.op("V computes v%d(ok=%v), B computes v%d(ok=%v)", va, oka, vb, okb)
	refusedAny := false
	noCommon := func(server string, transferred bool, what string) {
		if !transferred {
			refusedAny = true // either side may have computed (and cached) the failed negotiation
			return
		}
		if refusedAny {
			w.violate("C19", "error-cached-as-version-0", "real pairing %s <-> %s shares no version: %s refused the first request but served a later one as version 0 (%s)", c19Name(ai), c19Name(bi), server, what)
			return
		}
		w.violate("C19", "transfer-without-common-version", "real pairing %s <-> %s has no common version, yet %s", c19Name(ai), c19Name(bi), what)
	}
	for _, op := range p.Ops {
		switch op.K {
		case "offer_in", "offer_out":
			from, fp, to, tp := B, bp, V, vp
			if op.K == "offer_out" {
				from, fp, to, tp = V, vp, B, bp
			}
			_ = from
			var items2 [][2]string
			for i := range keys {
				k := append([]byte{}, keys[i]...)
				if op.K == "offer_out" {
					k[len(k)-1] ^= 0x55
				}
				items2 = append(items2, [2]string{hexutil.Encode(k), hexutil.Encode(items[i])})
			}
			okc, err := w.call(op.K, 20*time.Second, func() error {
				_, e := fp.api.Offer(to.enr(), items2)
				return e
			})
			if !okc {
				w.violate("C19", "call-hung", "Offer did not return")
				continue
			}
			got := w.runUntil(func() bool { return len(tp.queue) > 0 }, 40*time.Second)
			if supported {
				if err != nil || !got {
					w.violate("C19", "transfer-failed", "real pairing %s <-> %s shares version %d, but the offer failed (err=%v, enqueued=%v)", c19Name(ai), c19Name(bi), va, err, got)
					continue
				}
				el := <-tp.queue
				okAll := len(el.Contents) == len(items)
				for i := range el.Contents {
					if okAll && !bytes.Equal(el.Contents[i], items[i]) {
						okAll = false
					}
				}
				if !okAll {
					w.violate("C19", "offer-stream", "real pairing %s <-> %s (v%d): offered contents arrived altered", c19Name(ai), c19Name(bi), va)
				}
				w.probe(fmt.Sprintf("rr_offer_v%d", va))
			} else if !oka || !okb {
				if got {
					<-tp.queue
				}
				noCommon(to.cfg.name, got, "offered content was enqueued")
				w.probe("rr_offer_refused")
			} else if got {
				<-tp.queue
			}
		case "find_in", "find_out":
			asker, holder := bp, V
			if op.K == "find_out" {
				// B must hold something large too
				if err := bp.p.Put(bigKey, bp.p.ToContentId(bigKey), bigVal); err != nil {
					continue
				}
				asker, holder = vp, B
			}
			var res any
			okc, err := w.call(op.K, 200*time.Second, func() error {
				var e error
				res, e = asker.api.FindContent(holder.enr(), hexutil.Encode(bigKey))
				return e
			})
			if !okc {
				w.violate("C19", "call-hung", "FindContent did not return")
				continue
			}
			ci, _ := res.(*portalwire.ContentInfo)
			if supportedFind {
				if err != nil || ci == nil {
					w.violate("C19", "transfer-failed", "real pairing %s <-> %s shares version %d, but the large FindContent failed: %v", c19Name(ai), c19Name(bi), va, err)
					continue
				}
				got, _ := hexutil.Decode(ci.Content)
				if !bytes.Equal(got, bigVal) {
					w.violate("C19", "utp-framing", "real pairing %s <-> %s (v%d): FindContent returned %d bytes for a %d-byte item: %s", c19Name(ai), c19Name(bi), va, len(got), len(bigVal), diffSummary(got, bigVal))
				}
				w.probe(fmt.Sprintf("rr_find_v%d", va))
			} else if !oka || !okb {
				noCommon(holder.cfg.name, err == nil && ci != nil, "FindContent returned content")
				w.probe("rr_find_refused")
			}
		}
	}
}

// c19SecondPeer: after the exchanges with the first peer, a peer without any version entry offers and asks:
// the node must use its own first-listed version for it (history must not change what "base" means).
func c19SecondPeer(w *world, V *baseNode, vMine []uint8, ai, bi int, keys [][]byte, bigKey, bigVal []byte) {
	mine := vMine
	if mine == nil {
		mine = c19Builtin
	}
	base := mine[0]
	if base > 1 {
		return // a base version the build has no encoding for: nothing to assert
	}
	Q := w.newPuppet(nodeCfg{name: "Q", port: 9005, key: detKey(w.seed, 5), versions: nil, maxUtp: 20})
	w.runFor(30 * time.Millisecond)
	w.op("second peer without a version entry (after a peer advertising %s): base version %d expected", c19Name(bi), base)
	w.abstract("second %d", bi)
	var resp []byte
	okc, err := w.call("offer_in_q", 10*time.Second, func() error {
		var e error
		resp, e = Q.talk(V.self(), portalwire.History, encOffer(keys))
		return e
	})
	if !okc || err != nil {
		w.probe("second_peer_request_lost")
		return
	}
	a := decAccept(base, resp)
	bodyLen, wantLen := len(resp)-7, len(keys)
	if base == 0 {
		wantLen = len(keys)/8 + 1
	}
	if !a.ok || bodyLen != wantLen || len(a.codes) != len(keys) {
		w.violate("C19", "accept-encoding", "V advertises %s; a peer that advertises no versions (after exchanges with a peer advertising %s): the base version is %d, but the ACCEPT for %d keys has a %d-byte verdict field (v%d needs %d)", c19Name(ai), c19Name(bi), base, len(keys), bodyLen, base, wantLen)
	} else {
		w.probe(fmt.Sprintf("second_offer_in_v%d", base))
	}
	okc, err = w.call("find_in_q", 10*time.Second, func() error {
		var e error
		resp, e = Q.talk(V.self(), portalwire.History, encFindContent(bigKey))
		return e
	})
	if !okc || err != nil {
		return
	}
	rep := decContent(resp)
	if rep.kind != "connid" {
		w.violate("C19", "find-reply", "FINDCONTENT for a %d-byte item was not answered with a connection id (%s)", len(bigVal), rep.kind)
		return
	}
	var data []byte
	okc, err = w.call("find_in_q_utp", 150*time.Second, func() error {
		var e error
		data, e = Q.fetchUtp(V.self(), rep.connID, 100*time.Second)
		return e
	})
	if !okc || err != nil {
		w.violate("C19", "transfer-failed", "V advertises %s, peer without versions (base version %d): the large FINDCONTENT transfer failed: %v", c19Name(ai), base, err)
		return
	}
	want := bigVal
	if base == 1 {
		want = append(leb128(uint32(len(bigVal))), bigVal...)
	}
	if !bytes.Equal(data, want) {
		w.violate("C19", "utp-framing", "V advertises %s; a peer that advertises no versions (after a peer advertising %s): the base version is %d, but the stream (%d bytes) is not the v%d framing of the %d-byte item", c19Name(ai), c19Name(bi), base, len(data), base, len(bigVal))
	} else {
		w.probe(fmt.Sprintf("second_find_in_v%d", base))
	}
}
