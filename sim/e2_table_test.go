package sim

import (
	"errors"
	"fmt"
	"net"
	"net/netip"
	"sort"
	"strings"
	"testing/synctest"
	"time"

	"github.com/ethereum/go-ethereum/p2p/enode"
	"github.com/ethereum/go-ethereum/p2p/enr"
	"github.com/zen-eth/shisui/portalwire"
)

// E2 simtable: the real Table (loop goroutine, revalidation alarm, doRevalidate goroutines,
// in-memory enode.DB) over a transport decided by the simulator.
// C07: structural invariants after every step (serial and concurrent classes).
// C18: transition-by-transition comparison with an executable reference model (serial class).

func init() {
	engines["table-serial"] = func(seed uint64) { runTable(seed, "table-serial", false) }
	engines["table-conc"] = func(seed uint64) { runTable(seed, "table-conc", true) }
}

const (
	tBucketSize = 16
	tMaxRepl    = 10
	tNBuckets   = 17
)

var tDistClasses = []int{256, 255, 254, 253, 250, 245, 241, 240, 239, 200, 100, 1}

func genTable(conc bool) func(r *prng) *plan {
	return func(r *prng) *plan {
		p := &plan{Cfg: map[string]int64{}}
		p.Cfg["ipmix"] = int64(r.intn(3)) // 0 loopback/LAN only, 1 mixed, 2 mostly public colliding /24s
		if !conc && r.chance(60) {
			p.Cfg["ipmix"] = 0
		}
		p.Cfg["classes"] = int64(1 + r.intn(6)) // how many distance classes are used (fewer = fuller buckets)
		p.Cfg["pernode"] = int64(18 + r.intn(14))
		n := 30 + r.intn(120)
		nn := int(p.Cfg["classes"] * p.Cfg["pernode"])
		// warm-up: fill one or more distance classes so that full buckets and replacement lists occur
		if r.chance(75) {
			upto := int(p.Cfg["pernode"]) * (1 + r.intn(int(p.Cfg["classes"])))
			for i := 0; i < upto; i++ {
				if r.chance(85) {
					p.Ops = append(p.Ops, opSpec{K: "addfound", N: []int64{int64(i), int64(r.intn(4)), int64(r.intn(2))}})
				}
			}
		}
		for i := 0; i < n; i++ {
			node := int64(r.intn(nn))
			rec := int64(r.intn(4))
			switch r.intn(20) {
			case 0, 1, 2, 3, 4, 5, 6:
				p.Ops = append(p.Ops, opSpec{K: "addfound", N: []int64{node, rec, int64(r.intn(2))}})
			case 7, 8, 9:
				p.Ops = append(p.Ops, opSpec{K: "addinbound", N: []int64{node, rec}})
			case 10:
				p.Ops = append(p.Ops, opSpec{K: "delete", N: []int64{node}})
			case 11, 12, 13:
				p.Ops = append(p.Ops, opSpec{K: "beh", N: []int64{node, int64(r.intn(10))}})
			case 14, 15:
				ms := int64(200 + r.intn(12000))
				if r.chance(2) {
					// a long quiet stretch (the periodic refresh, 30 min, comes due on its own; hundreds of
					// revalidation rounds): virtual time makes it cheap
					ms = int64(20+r.intn(40)) * 60_000
				}
				p.Ops = append(p.Ops, opSpec{K: "wait", N: []int64{ms}})
			case 16, 17, 18:
				if r.chance(25) {
					// a run of consecutive fruitless queries against one node
					for k := 0; k < 4+r.intn(3); k++ {
						p.Ops = append(p.Ops, opSpec{K: "track", N: []int64{node, 0}})
					}
				}
				o := opSpec{K: "track", N: []int64{node, int64(r.intn(3) / 2)}}
				for k := 0; k < r.intn(4); k++ {
					o.N = append(o.N, int64(r.intn(nn)), int64(r.intn(4)))
				}
				if r.chance(10) {
					o.N = append(o.N, -1, 0) // the queried peer names the local node itself
				}
				p.Ops = append(p.Ops, o)
			default:
				if r.chance(30) {
					p.Ops = append(p.Ops, opSpec{K: "refresh"})
				} else if conc && r.chance(50) {
					p.Ops = append(p.Ops, opSpec{K: "collect", N: []int64{int64(r.intn(17)), int64(r.intn(2))}})
				} else {
					p.Ops = append(p.Ops, opSpec{K: "addself"})
				}
			}
			if conc && r.chance(35) {
				// second parameter: 0 = plain goroutines at one instant, otherwise the seed of the yield scheduler
				ys := int64(0)
				if r.chance(60) {
					ys = int64(1 + r.intn(1<<30))
				}
				p.Ops = append(p.Ops, opSpec{K: "par", N: []int64{int64(2 + r.intn(4)), ys}})
			}
		}
		if conc && r.chance(35) {
			// race story: a full bucket with replacements, one entry one fruitless query away from removal;
			// the fifth query report arrives together with operations that touch the same bucket from other
			// goroutines (explicit deletion takes the table's lock itself, refresh loads seeds on its own
			// goroutine), all under the yield scheduler
			per := int(p.Cfg["pernode"])
			// the story has a distance class of its own (log-distance 256) behind the ordinary pool, and
			// three signed bootstrap records in the same bucket: every refresh offers them to the table again
			p.Cfg["story"] = 1
			base := nn
			for i := 0; i < per; i++ {
				p.Ops = append(p.Ops, opSpec{K: "addfound", N: []int64{int64(base + i), 0, 1}})
			}
			// the bootstrap records entered the bucket when the table was created: take them out, so that a
			// refresh has something to put back
			for b := 0; b < 3; b++ {
				p.Ops = append(p.Ops, opSpec{K: "delete", N: []int64{int64(base + per + b)}})
			}
			for round := 0; round < 1+r.intn(3); round++ {
				x := int64(base + r.intn(13))
				for k := 0; k < 4; k++ {
					p.Ops = append(p.Ops, opSpec{K: "track", N: []int64{x, 0}})
				}
				n := 2 + r.intn(3)
				p.Ops = append(p.Ops, opSpec{K: "par", N: []int64{int64(n), int64(1 + r.intn(1<<30))}}, opSpec{K: "track", N: []int64{x, 0}})
				for k := 1; k < n; k++ {
					y := int64(base + r.intn(per))
					switch r.intn(6) {
					case 0:
						p.Ops = append(p.Ops, opSpec{K: "delete", N: []int64{y}})
					case 1, 2:
						p.Ops = append(p.Ops, opSpec{K: "refresh"})
					case 4, 5:
						// a FINDNODES request for the story's bucket (log-distance 256) arrives at the same time
						p.Ops = append(p.Ops, opSpec{K: "collect", N: []int64{16, int64(r.intn(2))}})
					default:
						p.Ops = append(p.Ops, opSpec{K: "addinbound", N: []int64{y, int64(r.intn(4))}})
					}
				}
			}
		}
		p.Ops = append(p.Ops, opSpec{K: "wait", N: []int64{20000}})
		return p
	}
}

// ---------- node pool ----------

type tnode struct {
	idx  int
	id   enode.ID
	recs []*enode.Node // record versions: different seq / endpoint
}

func nullNode(id enode.ID, ip net.IP, port int, seq uint64) *enode.Node {
	var r enr.Record
	if ip != nil {
		r.Set(enr.IP(ip))
	}
	if port != 0 {
		r.Set(enr.UDP(port))
	}
	r.SetSeq(seq)
	return enode.SignNull(&r, id)
}

func tIP(r *prng, mix int64) net.IP {
	lan := []net.IP{{127, 0, 0, 1}, {127, 0, 0, 2}, {10, 0, 0, 1}, {10, 0, 1, 7}, {192, 168, 1, 9}}
	pub := []net.IP{{5, 5, 5, byte(1 + r.intn(200))}, {5, 5, 5, byte(1 + r.intn(200))}, {5, 5, 6, byte(1 + r.intn(200))}, {6, 6, 6, byte(1 + r.intn(200))}, {7, 1, byte(r.intn(200)), 1}}
	switch mix {
	case 0:
		return lan[r.intn(len(lan))]
	case 1:
		if r.chance(50) {
			return lan[r.intn(len(lan))]
		}
		return pub[r.intn(len(pub))]
	}
	if r.chance(10) {
		return net.IP{0, 0, 0, 0}
	}
	if r.chance(15) {
		return lan[r.intn(len(lan))]
	}
	return pub[r.intn(len(pub))]
}

func isLANip(ip netip.Addr) bool {
	if ip.IsLoopback() {
		return true
	}
	v4 := ip.As4()
	return v4[0] == 10 || (v4[0] == 192 && v4[1] == 168) || (v4[0] == 172 && v4[1] >= 16 && v4[1] < 32)
}

func tBucketOf(self, id enode.ID) int {
	d := enode.LogDist(self, id)
	if d <= 240 {
		return 0
	}
	return d - 240
}

// ---------- reference model (C18) ----------

type ment struct {
	id     enode.ID
	seq    uint64
	ip     netip.Addr
	port   int
	credit uint
	live   bool
}

type mbucket struct {
	entries []ment
	repl    []ment
}

type mstate struct {
	b [tNBuckets]mbucket
}

func (s *mstate) clone() *mstate {
	c := &mstate{}
	for i := range s.b {
		c.b[i].entries = append([]ment(nil), s.b[i].entries...)
		c.b[i].repl = append([]ment(nil), s.b[i].repl...)
	}
	return c
}

func fromSnapshot(buckets []portalwire.VerifBucket) *mstate {
	s := &mstate{}
	conv := func(es []portalwire.VerifEntry) []ment {
		var out []ment
		for _, e := range es {
			out = append(out, ment{id: e.Node.ID(), seq: e.Node.Seq(), ip: e.Node.IPAddr(), port: e.Node.UDP(), credit: e.Checks, live: e.Live})
		}
		return out
	}
	for i := range buckets {
		if i < tNBuckets {
			s.b[i].entries = conv(buckets[i].Entries)
			s.b[i].repl = conv(buckets[i].Replacements)
		}
	}
	return s
}

func (s *mstate) String() string {
	var sb strings.Builder
	for i := range s.b {
		if len(s.b[i].entries)+len(s.b[i].repl) == 0 {
			continue
		}
		fmt.Fprintf(&sb, "b%d[", i)
		for _, e := range s.b[i].entries {
			fmt.Fprintf(&sb, "%x:s%d:c%d:%v:%s:%d ", e.id[:2], e.seq, e.credit, e.live, e.ip, e.port)
		}
		sb.WriteString("| ")
		for _, e := range s.b[i].repl {
			fmt.Fprintf(&sb, "%x:s%d ", e.id[:2], e.seq)
		}
		sb.WriteString("] ")
	}
	return sb.String()
}

func idxOf(list []ment, id enode.ID) int {
	for i := range list {
		if list[i].id == id {
			return i
		}
	}
	return -1
}

func mentOf(n *enode.Node) ment {
	return ment{id: n.ID(), seq: n.Seq(), ip: n.IPAddr(), port: n.UDP()}
}

// diffStates describes the first difference between the model's expectation and the table.
func diffStates(want, got *mstate) string {
	for i := range want.b {
		we, ge := want.b[i].entries, got.b[i].entries
		if len(we) != len(ge) {
			return fmt.Sprintf("bucket %d: model expects %d entries, table has %d", i, len(we), len(ge))
		}
		for j := range we {
			if we[j] != ge[j] {
				return fmt.Sprintf("bucket %d entry %d: model expects %s, table has %s", i, j, fmtMent(we[j]), fmtMent(ge[j]))
			}
		}
		wr, gr := want.b[i].repl, got.b[i].repl
		if len(wr) != len(gr) {
			return fmt.Sprintf("bucket %d: model expects %d replacements, table has %d", i, len(wr), len(gr))
		}
		for j := range wr {
			if wr[j].id != gr[j].id || wr[j].seq != gr[j].seq || wr[j].ip != gr[j].ip || wr[j].port != gr[j].port {
				return fmt.Sprintf("bucket %d replacement %d: model expects %x seq %d, table has %x seq %d", i, j, wr[j].id[:3], wr[j].seq, gr[j].id[:3], gr[j].seq)
			}
		}
	}
	return ""
}

func fmtMent(m ment) string {
	return fmt.Sprintf("{%x seq=%d %s:%d credit=%d verified=%v}", m.id[:3], m.seq, m.ip, m.port, m.credit, m.live)
}

type tableSim struct {
	w      *world
	p      *plan
	tab    *portalwire.Table
	ys     *ysched
	self   *enode.Node
	nodes  []*tnode
	beh    map[enode.ID]int // behaviour of a node when pinged
	model  *mstate
	fails  map[string]int
	serial bool
	// observations since the last step
	added, removed []hookEv
	pings          []pingEv
	gen            map[enode.ID]int // generation of the table entry (bumped on every add to a bucket)
	opIdx          int
	inDB           map[enode.ID]bool
	enrLost        map[enode.ID]bool
}

type hookEv struct {
	bucket int
	id     enode.ID
}

type pingEv struct {
	id        enode.ID
	gen       int
	responded bool
	newRec    *enode.Node
	seqAtPing uint64
}

const (
	behAlive = iota
	behDead
	behNewSeqSameEndpoint
	behNewEndpoint
	behSlowAlive
	behSlowDead
	behSlowNewSeq      // slow answer announcing a newer record (can arrive after the table learnt an even newer one)
	behSlowNewEndpoint // same with a changed endpoint
	behLyingSeq        // announces a high sequence number, then serves a record that is not newer
	behNewSeqEnrLost   // answers the ping announcing a newer record, but the record request is lost
	behCount
)

func runTable(seed uint64, engine string, conc bool) {
	p := loadOrGenPlan(engine, seed, genTable(conc))
	w := newWorld(seed, "C07", engine)
	w.res.Class = map[bool]string{true: "concurrent", false: "serial"}[conc]
	ts := &tableSim{w: w, p: p, beh: map[enode.ID]int{}, fails: map[string]int{}, serial: !conc, gen: map[enode.ID]int{}, inDB: map[enode.ID]bool{}, enrLost: map[enode.ID]bool{}}
	rs := newPrng(seed ^ 0x7ab1e)
	var selfID enode.ID
	copy(selfID[:], rs.bytes(32))
	ts.self = nullNode(selfID, net.IP{127, 0, 0, 1}, 30303, 1)
	// pool: ids at chosen log distances (null identity scheme: ids can be set directly)
	classes := int(p.cfg("classes"))
	per := int(p.cfg("pernode"))
	off := rs.intn(len(tDistClasses))
	dists := make([]int, 0, classes+1)
	for c := 0; c < classes; c++ {
		dists = append(dists, tDistClasses[(off+c*5)%len(tDistClasses)])
	}
	if p.cfg("story") == 1 {
		dists = append(dists, 256)
	}
	for _, d := range dists {
		for k := 0; k < per; k++ {
			id := selfID
			// flip bit so that logdist == d, randomise lower bits
			bit := 256 - d // index from the most significant bit
			low := rs.bytes(32)
			for i := range id {
				for j := 0; j < 8; j++ {
					pos := i*8 + j
					mask := byte(0x80 >> uint(j))
					switch {
					case pos == bit:
						id[i] ^= mask
					case pos > bit:
						id[i] = id[i]&^mask | low[i]&mask
					}
				}
			}
			if enode.LogDist(selfID, id) != d {
				fatal2("table pool: bad distance")
			}
			tn := &tnode{idx: len(ts.nodes), id: id}
			ip := tIP(rs, p.cfg("ipmix"))
			port := 1000 + rs.intn(5)
			for v := 0; v < 4; v++ {
				if v > 0 && rs.chance(40) {
					ip = tIP(rs, p.cfg("ipmix"))
				}
				if v > 0 && rs.chance(30) {
					port = 1000 + rs.intn(5)
				}
				tn.recs = append(tn.recs, nullNode(id, ip, port, uint64(rs.intn(4))))
			}
			ts.nodes = append(ts.nodes, tn)
		}
	}
	byID := map[enode.ID]*tnode{}
	for _, n := range ts.nodes {
		byID[n.id] = n
	}
	db, _ := enode.OpenDB("")
	tr := &portalwire.VerifTransport{
		SelfFn: func() *enode.Node { return ts.self },
		PingFn: func(n *enode.Node) (uint64, error) {
			b := ts.beh[n.ID()]
			ev := pingEv{id: n.ID(), gen: ts.gen[n.ID()], seqAtPing: n.Seq()}
			if b == behSlowAlive || b == behSlowDead || b == behSlowNewSeq || b == behSlowNewEndpoint {
				ts.w.fault("slow_peer_answer")
				time.Sleep(time.Duration(300+int(n.ID()[31])*30) * time.Millisecond)
			}
			switch b {
			case behDead, behSlowDead:
				ts.pings = append(ts.pings, ev)
				ts.w.fault("liveness_ping_unanswered")
				return 0, errors.New("timeout")
			case behNewSeqEnrLost:
				ev.responded = true // the liveness check itself succeeded
				ts.enrLost[n.ID()] = true
				ts.pings = append(ts.pings, ev)
				return n.Seq() + 1, nil
			case behLyingSeq:
				// PONG claims a much newer record; the ENR actually served has the old sequence number
				// (and another port): it must not replace the stored record
				ev.responded = true
				ev.newRec = nullNode(n.ID(), n.IP(), n.UDP()+7, n.Seq())
				ts.pings = append(ts.pings, ev)
				return n.Seq() + 5, nil
			case behNewSeqSameEndpoint, behNewEndpoint, behSlowNewSeq, behSlowNewEndpoint:
				ip, port := n.IP(), n.UDP()
				if b == behNewEndpoint || b == behSlowNewEndpoint {
					port = port + 1
				}
				ev.responded = true
				ev.newRec = nullNode(n.ID(), ip, port, n.Seq()+1)
				ts.pings = append(ts.pings, ev)
				return n.Seq() + 1, nil
			}
			ev.responded = true
			ts.pings = append(ts.pings, ev)
			return n.Seq(), nil
		},
		RequestENRFn: func(n *enode.Node) (*enode.Node, error) {
			if ts.enrLost[n.ID()] {
				delete(ts.enrLost, n.ID())
				ts.w.fault("record_request_lost")
				return nil, errors.New("RPC timeout")
			}
			// the record announced by the ping
			for i := len(ts.pings) - 1; i >= 0; i-- {
				if ts.pings[i].id == n.ID() && ts.pings[i].newRec != nil {
					return ts.pings[i].newRec, nil
				}
			}
			return nil, errors.New("no record")
		},
	}
	tcfg := portalwire.Config{DisableInitCheck: true, PingInterval: time.Duration(1+rs.intn(4)) * time.Second}
	if p.cfg("story") == 1 {
		for _, k := range keysAtDistance(seed, selfID, map[int]int{256: 3}, 0)[256] {
			bn := makeENR(k, net.IP{127, 0, 0, 1}, 7000+len(tcfg.Bootnodes), 1, 0)
			tcfg.Bootnodes = append(tcfg.Bootnodes, bn)
			// addressable by the plan like any pool node (behind the story's class)
			tn := &tnode{idx: len(ts.nodes), id: bn.ID(), recs: []*enode.Node{bn, bn, bn, bn}}
			ts.nodes = append(ts.nodes, tn)
			byID[tn.id] = tn
		}
	}
	tab, err := portalwire.VerifNewTable(tr, db, tcfg)
	if err != nil {
		fatal2("newtable: " + err.Error())
	}
	ts.tab = tab
	ts.ys = newYsched(mutexesOf(tab))
	portalwire.VerifTableYieldHook = ts.ys.yield
	tab.VerifSetHooks(func(b int, n *enode.Node) {
		ts.gen[n.ID()]++
		ts.added = append(ts.added, hookEv{b, n.ID()})
	}, func(b int, n *enode.Node) {
		ts.removed = append(ts.removed, hookEv{b, n.ID()})
	})
	go tab.VerifLoop()
	synctest.Wait()
	ts.model = &mstate{}
	ts.checkC07("start")

	ops := p.Ops
	for i := 0; i < len(ops); i++ {
		ts.opIdx = i
		op := ops[i]
		if op.K == "par" {
			// the next n operations are issued by separate goroutines at the same virtual instant
			n := int(op.n(0))
			var batch []opSpec
			for j := i + 1; j < len(ops) && len(batch) < n; j++ {
				if ops[j].K == "par" || ops[j].K == "wait" {
					break
				}
				batch = append(batch, ops[j])
			}
			i += len(batch)
			if op.n(1) != 0 {
				// under the seeded yield scheduler: the operations, the table's loop and whatever it spawns
				// interleave at every statement that runs without the table's mutex
				var fns []func()
				for _, bo := range batch {
					fns = append(fns, func() { ts.exec(bo) })
				}
				sw, stuck := ts.ys.run(newPrng(uint64(op.n(1))), fns)
				if stuck {
					w.violate("C07", "op-hung", "concurrent table operations did not return under the yield scheduler")
				}
				w.res.Probes["ysched_switches"] += sw
				w.res.Probes["ysched_parks"] = ts.ys.parks
				w.res.Probes["ysched_skipped_lock_held"] = ts.ys.skips
				synctest.Wait()
				w.op("par %d ops under the yield scheduler", len(batch))
				w.abstract("ypar %d", len(batch))
				w.probe("par_batch_yield_scheduled")
				ts.checkC07("par")
				ts.checkAccounting(fmt.Sprintf("par#%d (yield scheduled)", ts.opIdx))
				ts.resync()
				continue
			}
			done := 0
			for _, bo := range batch {
				bo := bo
				go func() { ts.exec(bo); done++ }()
			}
			w.runUntil(func() bool { return done == len(batch) }, 30*time.Second)
			if done != len(batch) {
				w.violate("C07", "op-hung", "%d concurrent table operations did not return", len(batch)-done)
			}
			synctest.Wait()
			w.op("par %d ops", len(batch))
			w.abstract("par %d", len(batch))
			w.probe("par_batch")
			ts.checkC07("par")
			ts.checkAccounting(fmt.Sprintf("par#%d", ts.opIdx))
			ts.resync()
			continue
		}
		pre := ts.model.clone()
		ret := ts.exec(op)
		synctest.Wait()
		ts.checkC07(op.K)
		if ts.serial {
			ts.checkC18(op, pre, ret)
		}
		ts.resync()
	}
	tab.VerifClose()
	w.res.Nontrivial = w.res.Probes["entries_added"] > 3
	w.finish()
}

// checkAccounting: across a batch of concurrent operations every change of bucket membership must have been
// announced by the table's own membership events: an entry present before that is gone afterwards was
// removed (explicit deletion, exhausted liveness credit, fifth fruitless query - each fires the event), an
// entry present afterwards that was not there before was added. An entry that vanishes, or stays, against
// the events was displaced or resurrected by something else (C18).
func (ts *tableSim) checkAccounting(what string) {
	buckets, _, _, _ := ts.tab.VerifSnapshot()
	for bi := range buckets {
		count := map[enode.ID]int{}
		for _, e := range ts.model.b[bi].entries {
			count[e.id]++
		}
		for _, h := range ts.added {
			if h.bucket == bi {
				count[h.id]++
			}
		}
		for _, h := range ts.removed {
			if h.bucket == bi {
				count[h.id]--
			}
		}
		after := map[enode.ID]int{}
		for _, e := range buckets[bi].Entries {
			after[e.Node.ID()]++
		}
		for id, c := range count {
			if c != after[id] {
				ts.w.violate("C18", "entry-displaced", "%s: bucket %d node %x: %d expected from the membership before plus the table's own added/removed events, %d present", what, bi, id.Bytes()[:3], c, after[id])
			}
		}
		for id, c := range after {
			if _, ok := count[id]; !ok && c != 0 {
				ts.w.violate("C18", "entry-displaced", "%s: bucket %d node %x is present although it was not there before and no added event named it", what, bi, id.Bytes()[:3])
			}
		}
	}
}

// resync adopts the table's state as the model's (after it has been validated) and clears observations.
func (ts *tableSim) resync() {
	buckets, _, _, _ := ts.tab.VerifSnapshot()
	ts.model = fromSnapshot(buckets)
	ts.added, ts.removed, ts.pings = nil, nil, nil
}

type opRet struct {
	added bool
	node  *enode.Node
}

func (ts *tableSim) exec(op opSpec) opRet {
	w := ts.w
	nodeOf := func(i, rec int64) *enode.Node {
		if i < 0 {
			return ts.self
		}
		return ts.nodes[int(i)%len(ts.nodes)].recs[int(rec)%4]
	}
	switch op.K {
	case "addfound":
		n := nodeOf(op.n(0), op.n(1))
		ok := ts.tab.VerifAddFound(n, op.n(2) == 1)
		if ok {
			w.probe("entries_added")
		}
		w.op("addfound %x seq=%d %s:%d live=%v -> %v", n.ID().Bytes()[:3], n.Seq(), n.IPAddr(), n.UDP(), op.n(2) == 1, ok)
		w.abstract("addfound %v", ok)
		return opRet{ok, n}
	case "addinbound":
		n := nodeOf(op.n(0), op.n(1))
		ok := ts.tab.VerifAddInbound(n)
		if ok {
			w.probe("entries_added")
		}
		w.op("addinbound %x seq=%d %s:%d -> %v", n.ID().Bytes()[:3], n.Seq(), n.IPAddr(), n.UDP(), ok)
		w.abstract("addinbound %v", ok)
		return opRet{ok, n}
	case "addself":
		ok := ts.tab.VerifAddFound(ts.self, true)
		w.op("addfound self -> %v", ok)
		return opRet{ok, ts.self}
	case "delete":
		n := nodeOf(op.n(0), 0)
		ts.tab.VerifDelete(n)
		w.op("delete %x", n.ID().Bytes()[:3])
		w.abstract("delete")
		return opRet{node: n}
	case "beh":
		n := nodeOf(op.n(0), 0)
		ts.beh[n.ID()] = int(op.n(1))
		return opRet{node: n}
	case "wait":
		if op.n(0) >= 1_200_000 {
			w.probe("long_quiet_stretch")
		}
		w.runFor(time.Duration(op.n(0)) * time.Millisecond)
		w.op("wait %dms: %d pings answered", op.n(0), len(ts.pings))
		w.abstract("wait pings=%d", len(ts.pings))
		ts.w.res.Probes["revalidations"] += len(ts.pings)
		return opRet{}
	case "track":
		// the node's current table record if it has one
		n := nodeOf(op.n(0), 0)
		buckets, _, _, _ := ts.tab.VerifSnapshot()
		for _, b := range buckets {
			for _, e := range b.Entries {
				if e.Node.ID() == n.ID() {
					n = e.Node
				}
			}
		}
		var found []*enode.Node
		for k := 2; k+1 < len(op.N); k += 2 {
			found = append(found, nodeOf(op.N[k], op.N[k+1]))
		}
		ts.tab.VerifTrack(n, op.n(1) == 1, found)
		if !ts.serial {
			return opRet{node: n} // concurrent class: issued from a goroutine, the root does the waiting
		}
		synctest.Wait()
		w.op("track %x success=%v found=%d (consecutive failures now %d)", n.ID().Bytes()[:3], op.n(1) == 1, len(found), ts.tab.VerifFindFails(n))
		w.abstract("track %v %d", op.n(1) == 1, len(found))
		return opRet{node: n}
	case "refresh":
		<-ts.tab.VerifRefresh()
		w.op("refresh")
		w.abstract("refresh")
		return opRet{}
	case "collect":
		// what the FINDNODES handler does for one requested distance (it runs on the request's own goroutine,
		// beside the table loop)
		d := uint(240 + op.n(0)%17)
		got := ts.tab.VerifAppendBucketNodes(d, nil, op.n(1) == 1)
		for _, n := range got {
			if n == nil {
				w.violate("C07", "nil-entry", "collecting bucket nodes at distance %d returned a nil record", d)
			}
		}
		w.op("collect distance %d -> %d records", d, len(got))
		w.abstract("collect %d", len(got)/4)
		return opRet{}
	}
	return opRet{}
}

// ---------- C07: structural invariants ----------

func (ts *tableSim) checkC07(after string) {
	w := ts.w
	buckets, fast, slow, _ := ts.tab.VerifSnapshot()
	seen := map[enode.ID]string{}
	tableNets := map[netip.Prefix]int{}
	inFast, inSlow := map[enode.ID]int{}, map[enode.ID]int{}
	for _, id := range fast {
		inFast[id]++
	}
	for _, id := range slow {
		inSlow[id]++
	}
	total := 0
	for bi, b := range buckets {
		if len(b.Entries) > tBucketSize {
			w.violate("C07", "bucket-overflow", "after %s#%d: bucket %d holds %d entries", after, ts.opIdx, bi, len(b.Entries))
		}
		if len(b.Replacements) > tMaxRepl {
			w.violate("C07", "replacement-overflow", "after %s#%d: bucket %d holds %d replacements", after, ts.opIdx, bi, len(b.Replacements))
		}
		if len(b.Entries) == tBucketSize {
			w.probe("bucket_full")
		}
		if len(b.Replacements) == tMaxRepl {
			w.probe("replacements_full")
		}
		bucketNets := map[netip.Prefix]int{}
		check := func(e portalwire.VerifEntry, where string) {
			id := e.Node.ID()
			if id == ts.self.ID() {
				w.violate("C07", "self-in-table", "after %s#%d: the local node sits in bucket %d (%s)", after, ts.opIdx, bi, where)
			}
			if prev, dup := seen[id]; dup {
				w.violate("C07", "duplicate-id", "after %s#%d: node %x appears twice (%s and bucket %d %s)", after, ts.opIdx, id[:3], prev, bi, where)
			}
			seen[id] = fmt.Sprintf("bucket %d %s", bi, where)
			if want := tBucketOf(ts.self.ID(), id); want != bi {
				w.violate("C07", "wrong-bucket", "after %s#%d: node at log-distance %d sits in bucket %d, belongs in %d", after, ts.opIdx, enode.LogDist(ts.self.ID(), id), bi, want)
			}
			ip := e.Node.IPAddr()
			if ip.IsValid() && !isLANip(ip) {
				pfx, _ := ip.Prefix(24)
				bucketNets[pfx]++
				tableNets[pfx]++
			}
		}
		for _, e := range b.Entries {
			total++
			check(e, "entries")
			id := e.Node.ID()
			n := inFast[id] + inSlow[id]
			if n != 1 {
				w.violate("C07", "revalidation-lists", "after %s#%d: entry %x is in %d revalidation lists", after, ts.opIdx, id[:3], n)
			} else if (inFast[id] == 1) != (e.List == "fast") || (inSlow[id] == 1) != (e.List == "slow") {
				w.violate("C07", "revalidation-lists", "after %s#%d: entry %x points back to list %q but is held by the other one", after, ts.opIdx, id[:3], e.List)
			}
		}
		for _, e := range b.Replacements {
			check(e, "replacements")
			if inFast[e.Node.ID()]+inSlow[e.Node.ID()] != 0 || e.List != "" {
				w.violate("C07", "revalidation-lists", "after %s#%d: replacement %x is in a revalidation list", after, ts.opIdx, e.Node.ID().Bytes()[:3])
			}
		}
		for pfx, n := range bucketNets {
			if n > 2 {
				w.violate("C07", "bucket-ip-limit", "after %s#%d: bucket %d holds %d nodes from %s", after, ts.opIdx, bi, n, pfx)
			}
			if n == 2 {
				w.probe("bucket_ip_limit_reached")
			}
		}
	}
	for pfx, n := range tableNets {
		if n > 10 {
			w.violate("C07", "table-ip-limit", "after %s#%d: the table holds %d nodes from %s", after, ts.opIdx, n, pfx)
		}
		if n == 10 {
			w.probe("table_ip_limit_reached")
		}
	}
	if len(fast)+len(slow) != total {
		w.violate("C07", "revalidation-lists", "after %s#%d: %d entries but %d nodes in the revalidation lists", after, ts.opIdx, total, len(fast)+len(slow))
	}
}

// ---------- C18: reference model ----------

// mAdd applies an add request to the model. post is the table's state afterwards, used only to
// resolve choices the statement leaves open (IP-limit refusals of non-LAN addresses).
func (ts *tableSim) mAdd(m *mstate, post *mstate, n *enode.Node, inbound, forceLive bool) (expectRet bool, ambiguous bool) {
	if n.ID() == ts.self.ID() {
		return false, false
	}
	bi := tBucketOf(ts.self.ID(), n.ID())
	b := &m.b[bi]
	nm := mentOf(n)
	badIP := !nm.ip.IsValid() || nm.ip.IsUnspecified()
	if i := idxOf(b.entries, n.ID()); i >= 0 {
		e := &b.entries[i]
		if nm.seq <= e.seq && !inbound {
			return false, false
		}
		ipch, portch := nm.ip != e.ip, nm.port != e.port
		if ipch && !mIPFits(m, bi, nm.ip, n.ID()) {
			ts.w.probe("update_refused_by_ip_limit")
			return false, false // the new address does not fit the /24 limits: the previous record stays
		}
		e.seq, e.ip, e.port = nm.seq, nm.ip, nm.port
		if ipch || portch {
			e.live = false
		}
		return false, false
	}
	if len(b.entries) >= tBucketSize {
		if idxOf(b.repl, n.ID()) >= 0 || badIP {
			return false, false
		}
		if !mIPFits(m, bi, nm.ip, n.ID()) {
			ts.w.probe("replacement_refused_by_ip_limit")
			return false, false
		}
		b.repl = append([]ment{nm}, b.repl...)
		if len(b.repl) > tMaxRepl {
			b.repl = b.repl[:tMaxRepl]
		}
		return false, false
	}
	if badIP {
		return false, false
	}
	if !mIPFits(m, bi, nm.ip, n.ID()) {
		ts.w.probe("add_refused_by_ip_limit")
		return false, false
	}
	if forceLive {
		nm.credit, nm.live = 1, true
	}
	b.entries = append(b.entries, nm)
	if j := idxOf(b.repl, n.ID()); j >= 0 {
		b.repl = append(b.repl[:j:j], b.repl[j+1:]...)
	}
	return true, false
}

// mDelete removes an entry; the promoted replacement is learned from the membership observer.
func (ts *tableSim) mDelete(m *mstate, id enode.ID, hooks *[]hookEv) (removed bool, why string) {
	bi := tBucketOf(ts.self.ID(), id)
	b := &m.b[bi]
	i := idxOf(b.entries, id)
	if i < 0 {
		return false, ""
	}
	b.entries = append(b.entries[:i:i], b.entries[i+1:]...)
	if len(b.repl) == 0 {
		return true, ""
	}
	// next "added" observation in this bucket names the promoted replacement
	for k, h := range *hooks {
		if h.bucket == bi {
			j := idxOf(b.repl, h.id)
			if j < 0 {
				return true, fmt.Sprintf("bucket %d: %x was promoted but is not in the replacement list", bi, h.id[:3])
			}
			pm := b.repl[j]
			b.repl = append(b.repl[:j:j], b.repl[j+1:]...)
			b.entries = append(b.entries, pm)
			*hooks = append((*hooks)[:k:k], (*hooks)[k+1:]...)
			return true, ""
		}
	}
	return true, fmt.Sprintf("bucket %d: an entry left while %d replacements were waiting, but none was promoted", bi, len(b.repl))
}

func (ts *tableSim) checkC18(op opSpec, pre *mstate, ret opRet) {
	w := ts.w
	buckets, _, _, _ := ts.tab.VerifSnapshot()
	post := fromSnapshot(buckets)
	// revalidation answers can be consumed by the loop before or after the operation itself:
	// both orders are legal, the transition must match one of them
	var firstDiff, firstClause string
	var firstFails []string
	for order := 0; order < 2; order++ {
		m := pre.clone()
		hooks := append([]hookEv(nil), ts.added...)
		var fails []string
		failf := func(clause, format string, a ...any) {
			fails = append(fails, clause+"|"+fmt.Sprintf(format, a...))
		}
		if order == 0 {
			ts.applyOp(m, post, op, ret, &hooks, failf, order == 0)
			ts.applyPings(m, post, op, &hooks, failf)
		} else {
			ts.applyPings(m, post, op, &hooks, failf)
			ts.applyOp(m, post, op, ret, &hooks, failf, false)
		}
		d := diffStates(m, post)
		if d == "" && len(fails) == 0 {
			for bi := range pre.b {
				if len(pre.b[bi].entries) == tBucketSize {
					w.probe("op_on_full_bucket")
				}
			}
			return
		}
		if order == 0 {
			firstDiff, firstFails = d, fails
			firstClause = "model-mismatch"
			for bi := range m.b {
				for _, e := range m.b[bi].entries {
					if idxOf(post.b[bi].entries, e.id) < 0 {
						firstClause = "entry-displaced"
					}
				}
			}
		}
		if len(ts.pings) == 0 {
			break // a single order exists
		}
	}
	for _, f := range firstFails {
		parts := strings.SplitN(f, "|", 2)
		w.violate("C18", parts[0], "op#%d %s: %s", ts.opIdx, op.K, parts[1])
	}
	if firstDiff != "" {
		w.violate("C18", firstClause, "op#%d %s: %s", ts.opIdx, op.K, firstDiff)
	}
}

func (ts *tableSim) applyOp(m, post *mstate, op opSpec, ret opRet, hooks *[]hookEv, fail func(string, string, ...any), countFails bool) {
	w := ts.w
	switch op.K {
	case "addfound", "addinbound", "addself":
		exp, amb := ts.mAdd(m, post, ret.node, op.K == "addinbound", op.K == "addfound" && op.n(2) == 1 || op.K == "addself")
		if !amb && exp != ret.added {
			fail("add-result", "model expects the add to return %v, the table returned %v", exp, ret.added)
		}
	case "delete":
		if _, why := ts.mDelete(m, ret.node.ID(), hooks); why != "" {
			fail("promotion", "%s", why)
		}
	case "track":
		key := ret.node.ID().String() + "|" + ret.node.IPAddr().String()
		if countFails {
			if op.n(1) == 1 {
				ts.fails[key] = 0
			} else {
				ts.fails[key]++
			}
			if got := ts.tab.VerifFindFails(ret.node); got != ts.fails[key] {
				fail("fail-counter", "model counts %d consecutive fruitless queries, the table %d", ts.fails[key], got)
				ts.fails[key] = got
			}
		}
		bi := tBucketOf(ts.self.ID(), ret.node.ID())
		if ts.fails[key] >= 5 && len(m.b[bi].entries) >= 4 {
			if rm, why := ts.mDelete(m, ret.node.ID(), hooks); why != "" {
				fail("promotion", "%s", why)
			} else if rm {
				w.probe("removed_by_find_failures")
			}
		}
		for k := 2; k+1 < len(op.N); k += 2 {
			n := ts.self // a negative index: the report names the local node
			if op.N[k] >= 0 {
				n = ts.nodes[int(op.N[k])%len(ts.nodes)].recs[int(op.N[k+1])%4]
			}
			ts.mAdd(m, post, n, false, false)
		}
	}
}

func (ts *tableSim) applyPings(m, post *mstate, op opSpec, hooks *[]hookEv, fail func(string, string, ...any)) {
	w := ts.w
	for _, pe := range ts.pings {
		bi := tBucketOf(ts.self.ID(), pe.id)
		i := idxOf(m.b[bi].entries, pe.id)
		if i < 0 {
			continue // removed while the request was in flight
		}
		if pe.gen != ts.gen[pe.id] {
			w.probe("stale_revalidation_answer_ignored")
			continue // the answer belongs to an entry that was removed and re-added meanwhile
		}
		e := &m.b[bi].entries[i]
		if !pe.responded {
			e.credit /= 3
			if e.credit == 0 {
				if _, why := ts.mDelete(m, pe.id, hooks); why != "" {
					fail("promotion", "%s", why)
				}
				w.probe("removed_by_liveness")
			}
			continue
		}
		e.credit++
		e.live = true
		if pe.newRec != nil && pe.newRec.Seq() > e.seq {
			nm := mentOf(pe.newRec)
			changed := nm.ip != e.ip || nm.port != e.port
			if nm.ip != e.ip && !mIPFits(m, bi, nm.ip, pe.id) {
				// the new address does not fit the /24 limits (C07): the previous record stays
				w.probe("record_update_refused_by_ip_limit")
				continue
			}
			e.seq, e.ip, e.port = nm.seq, nm.ip, nm.port
			if changed {
				e.live = false
				w.probe("endpoint_change_clears_verified")
			}
		}
	}
	// refresh may re-insert seed nodes from the node database: follow additions of known nodes
	if op.K == "refresh" {
		for _, h := range *hooks {
			if i := idxOf(post.b[h.bucket].entries, h.id); i >= 0 && idxOf(m.b[h.bucket].entries, h.id) < 0 && len(m.b[h.bucket].entries) < tBucketSize {
				m.b[h.bucket].entries = append(m.b[h.bucket].entries, post.b[h.bucket].entries[i])
			}
		}
		*hooks = nil
	}
}

var _ = sort.Ints

// mIPFits: would a node of bucket bi moving to (or arriving with) address ip respect the /24 limits, given
// every other entry and replacement of the model? Mirrors the rule of C07 (2 per bucket, 10 per table,
// LAN addresses exempt, no address = never).
func mIPFits(m *mstate, bi int, ip netip.Addr, skip enode.ID) bool {
	if !ip.IsValid() || ip.IsUnspecified() {
		return false
	}
	if isLANip(ip) {
		return true
	}
	pfx, _ := ip.Prefix(24)
	inBucket, inTable := 0, 0
	for i := range m.b {
		for _, list := range [][]ment{m.b[i].entries, m.b[i].repl} {
			for _, e := range list {
				if e.id == skip || !e.ip.IsValid() || isLANip(e.ip) || !pfx.Contains(e.ip) {
					continue
				}
				inTable++
				if i == bi {
					inBucket++
				}
			}
		}
	}
	return inBucket < 2 && inTable < 10
}
