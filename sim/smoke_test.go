package sim

import (
	"bytes"
	"fmt"
	"time"

	"github.com/ethereum/go-ethereum/common/hexutil"
	"github.com/zen-eth/shisui/portalwire"
)

func init() { engines["smoke"] = runSmoke }

// runSmoke: two full nodes; offer a large item A->B over uTP, then B answers FINDCONTENT.
func runSmoke(seed uint64) {
	w := newWorld(seed, "SMOKE", "smoke")
	w.net.faultsOn = seed%2 == 1
	w.net.faults = netFaults{MinLatency: 2 * time.Millisecond, Jitter: 30 * time.Millisecond, DropPct: 3, DupPct: 3}
	w.net.onSend = func(d *datagram) { w.j.logf("DG %s>%s len=%d h=%x", d.from, d.to, len(d.data), sum8(d.data)) }
	a := w.newBase(nodeCfg{name: "A", port: 9001, key: detKey(seed, 1), versions: []uint8{0, 1}, maxUtp: 5, capacityMB: 1})
	ap := a.newPlainProto(portalwire.History)
	b := w.newBase(nodeCfg{name: "B", port: 9002, key: detKey(seed, 2), versions: []uint8{0, 1}, maxUtp: 5, capacityMB: 1})
	bp := b.newPlainProto(portalwire.History)
	w.runFor(100 * time.Millisecond)

	key := append([]byte{0x01}, w.rng.bytes(32)...)
	val := w.rng.bytes(5000)
	var acc string
	ok, err := w.call("offer", 30*time.Second, func() error {
		var e error
		acc, e = ap.api.Offer(b.enr(), [][2]string{{hexutil.Encode(key), hexutil.Encode(val)}})
		return e
	})
	w.op("offer ok=%v err=%v acc=%s", ok, err, acc)
	got := w.runUntil(func() bool { return len(bp.queue) > 0 }, 60*time.Second)
	w.op("queue got=%v", got)
	if got {
		el := <-bp.queue
		if !bytes.Equal(el.Contents[0], val) {
			w.violate("SMOKE", "content", "mismatch")
		}
		_ = bp.p.Put(key, bp.p.ToContentId(key), el.Contents[0])
		var res any
		ok, err = w.call("findcontent", 90*time.Second, func() error {
			var e error
			res, e = ap.api.FindContent(b.enr(), hexutil.Encode(key))
			return e
		})
		ci, _ := res.(*portalwire.ContentInfo)
		w.op("findcontent ok=%v err=%v utp=%v match=%v", ok, err, ci != nil && ci.UtpTransfer, ci != nil && ci.Content == hexutil.Encode(val))
	}
	w.runFor(20 * time.Second)
	w.res.Note = fmt.Sprintf("maxdg=%d", w.net.maxDatagram)
	w.finish()
}

func sum8(b []byte) []byte {
	var h uint64 = 1469598103934665603
	for _, c := range b {
		h = (h ^ uint64(c)) * 1099511628211
	}
	return []byte{byte(h >> 56), byte(h >> 48), byte(h >> 40), byte(h >> 32), byte(h >> 24), byte(h >> 16), byte(h >> 8), byte(h)}
}
