package sim

import (
	"fmt"
	"net"
	"time"

	"github.com/ethereum/go-ethereum/p2p/enode"
	"github.com/zen-eth/shisui/portalwire"
)

// C16 — transfer slots are bounded and always given back.

func init() {
	engines["c16"] = func(seed uint64) { runC16(seed, false) }
	engines["c16enum"] = func(seed uint64) { runC16(seed, true) }
}

func genC16(enum bool) func(r *prng) *plan {
	return func(r *prng) *plan {
		p := &plan{Cfg: map[string]int64{}}
		if enum {
			// enumeration class: one outcome x direction x limit per run, decoded from the seed
			return p
		}
		if r.chance(4) {
			// full offer queue: more slots than the queue (1000) and its 50 workers can absorb, every peer
			// silent, a burst of gossip rounds at one instant
			p.Cfg["limit"] = int64(1400 + r.intn(400))
			p.Cfg["vv"], p.Cfg["pv"], p.Cfg["np"] = int64(r.intn(3)), int64(r.intn(3)), 8
			for i := 0; i < 150+r.intn(40); i++ {
				p.Ops = append(p.Ops, opSpec{K: "gossip", N: []int64{int64(r.u64() >> 1), 50, 0, 0, 0, 0, 0, 0, 0, 0, 1}})
			}
			return p
		}
		if r.chance(30) {
			// the offer path (handlers, offer workers, slot hand-over) under the statement-level yield scheduler
			p.Cfg["ysched"] = int64(1 + r.intn(1<<30))
		}
		p.Cfg["limit"] = int64(r.intn(6))
		p.Cfg["vv"] = int64(r.intn(3))
		p.Cfg["pv"] = int64(r.intn(3))
		p.Cfg["faults"] = int64(r.intn(2))
		p.Cfg["drop"] = int64(r.intn(10))
		p.Cfg["jitter_ms"] = int64(r.intn(100))
		np := 1 + r.intn(6)
		p.Cfg["np"] = int64(np)
		if r.chance(15) {
			// story: a transfer that completed leaves its goroutine waiting (it gives its slot back when its read
			// is done and once more when it ends, seconds later); meanwhile another offer takes the last slot and
			// stalls; after the first goroutine has ended a further offer arrives: the stalled transfer must still
			// hold its slot
			p.Cfg["limit"] = int64(1 + r.intn(2))
			p.Cfg["faults"] = 0
			for k := int64(0); k < p.Cfg["limit"]; k++ {
				p.Ops = append(p.Ops, opSpec{K: "inoffer", N: []int64{int64(r.intn(np)), int64(1 + r.intn(3)), int64(ibComplete), int64(r.u64() >> 1), int64(r.intn(3000))}})
			}
			p.Ops = append(p.Ops, opSpec{K: "wait", N: []int64{int64(1000 + r.intn(8000))}})
			for k := int64(0); k < p.Cfg["limit"]; k++ {
				p.Ops = append(p.Ops, opSpec{K: "inoffer", N: []int64{int64(r.intn(np)), int64(1 + r.intn(3)), int64(ibStall), int64(r.u64() >> 1), int64(r.intn(3000))}})
			}
			p.Ops = append(p.Ops, opSpec{K: "wait", N: []int64{int64(16000 + r.intn(14000))}})
			p.Ops = append(p.Ops, opSpec{K: "inoffer", N: []int64{int64(r.intn(np)), int64(1 + r.intn(3)), int64(r.intn(ibCount)), int64(r.u64() >> 1), int64(r.intn(3000))}})
		}
		n := 3 + r.intn(10)
		for i := 0; i < n; i++ {
			switch r.intn(10) {
			case 0, 1, 2, 3:
				// gossip round: outcome per puppet
				o := opSpec{K: "gossip", N: []int64{int64(r.u64() >> 1), int64(r.intn(6000))}}
				for j := 0; j < np; j++ {
					o.N = append(o.N, int64(r.intn(osCount)))
				}
				if r.chance(12) {
					// an item far larger than a receive window towards peers that accept the stream and never
					// read: the sender stays blocked in its write, the transfer is in progress for seconds
					o.N[1] = 3_000_000
					for j := 0; j < np; j++ {
						if r.chance(70) {
							o.N[2+j] = int64(osAcceptStall)
						}
					}
				}
				p.Ops = append(p.Ops, o)
			case 4, 5, 6, 7:
				p.Ops = append(p.Ops, opSpec{K: "inoffer", N: []int64{int64(r.intn(np)), int64(1 + r.intn(3)), int64(r.intn(ibCount)), int64(r.u64() >> 1), int64(r.intn(5000))}})
			case 8:
				p.Ops = append(p.Ops, opSpec{K: "wait", N: []int64{int64(r.intn(20000))}})
			default:
				if r.chance(30) {
					p.Ops = append(p.Ops, opSpec{K: "stop"})
				} else {
					p.Ops = append(p.Ops, opSpec{K: "wait", N: []int64{int64(r.intn(3000))}})
				}
			}
			if r.chance(50) {
				p.Ops = append(p.Ops, opSpec{K: "wait", N: []int64{int64(r.intn(1500))}})
			}
		}
		return p
	}
}

func runC16(seed uint64, enum bool) {
	name := "c16"
	if enum {
		name = "c16enum"
	}
	p := loadOrGenPlan(name, seed, genC16(enum))
	if enum && len(p.Ops) == 0 {
		// exhaustive table: (10 outbound outcomes + 6 inbound behaviours) x limit {0,1,2} x versions {0},{1}
		idx := int(envInt("VERIF_RUNIDX", int64(seed%96)) % 96)
		lim := idx % 3
		ver := (idx / 3) % 2
		oc := idx / 6 // 0..15
		p.Cfg["limit"], p.Cfg["vv"], p.Cfg["pv"], p.Cfg["np"] = int64(lim), int64(ver), int64(ver), 2
		if oc < osCount {
			p.Ops = []opSpec{{K: "gossip", N: []int64{int64(seed), 3000, int64(oc), int64(oc)}}, {K: "wait", N: []int64{500}}, {K: "gossip", N: []int64{int64(seed) + 1, 3000, int64(oc), int64(oc)}}}
		} else {
			b := int64(oc - osCount)
			p.Ops = []opSpec{{K: "inoffer", N: []int64{0, 2, b, int64(seed), 3000}}, {K: "inoffer", N: []int64{1, 2, b, int64(seed) + 7, 3000}}, {K: "wait", N: []int64{300}}, {K: "inoffer", N: []int64{0, 1, b, int64(seed) + 9, 100}}}
		}
	}
	w := newWorld(seed, "C16", name)
	w.wedgeIsViolation = true
	faults := p.cfg("faults") == 1
	w.res.Class = map[bool]string{true: "faults", false: "fault-free"}[faults]
	if enum {
		w.res.Class = "enumeration"
	}
	limit := int(p.cfg("limit"))
	vv, pv := versionSets[p.cfg("vv")%3], versionSets[p.cfg("pv")%3]
	np := int(p.cfg("np"))
	if np < 1 {
		np = 1
	}
	V := w.newBase(nodeCfg{name: "V", port: 9001, key: detKey(seed, 1), versions: vv, maxUtp: limit, capacityMB: 100})
	vp := V.newPlainProto(portalwire.History)
	if ys := p.cfg("ysched"); ys != 0 {
		w.ys, w.ysRng = newYsched(mutexesOf(vp.p)), newPrng(uint64(ys))
		portalwire.VerifProtoYieldHook = w.ys.yield
		w.ys.wake = w.net.wake
		w.ys.on = true
		w.probe("offer_path_yield_scheduled")
	}
	tr := newOfferTracker()
	tr.now = w.now
	var pups []*puppet
	// the outcome each puppet applies to the next offers it receives (FIFO)
	script := make([][]int, np)
	offeredTo := map[string]map[int]bool{}
	for i := 0; i < np; i++ {
		i := i
		P := w.newPuppet(nodeCfg{name: fmt.Sprintf("P%d", i), port: 9100 + i, key: detKey(seed, 10+i), versions: pv, maxUtp: 50})
		P.handlers[string(portalwire.History)] = func(from *enode.Node, addr *net.UDPAddr, msg []byte) []byte {
			if len(msg) == 0 {
				return nil
			}
			switch msg[0] {
			case portalwire.OFFER:
				if ks, err := decOfferKeys(msg); err == nil && len(ks) > 0 {
					if offeredTo[string(ks[0])] == nil {
						offeredTo[string(ks[0])] = map[int]bool{}
					}
					offeredTo[string(ks[0])][i] = true
					if n := len(offeredTo[string(ks[0])]); n > limit {
						w.violate("C16", "outbound-over-limit", "one gossip round offered its content to %d peers at once, the outbound limit is %d", n, limit)
					}
				}
				oc := osAcceptOK
				if len(script[i]) > 0 {
					oc = script[i][0]
					script[i] = script[i][1:]
				}
				return P.serveOffer(w, tr, pv, vv, oc, from, addr, msg)
			case portalwire.PING:
				return nil // liveness of puppets is not the subject here
			}
			return nil
		}
		pups = append(pups, P)
		vp.p.AddEnr(P.self())
	}
	w.runFor(30 * time.Millisecond)
	if faults {
		w.net.faultsOn = true
		w.net.faults = netFaults{MinLatency: 2 * time.Millisecond, Jitter: time.Duration(p.cfg("jitter_ms")) * time.Millisecond, DropPct: int(p.cfg("drop")), DupPct: 3}
	}
	stopped := false
	// invariant at every quiescent step
	check := func() {
		ain := availPermits(V.utp.GetInboundPermit)
		aout := availPermits(V.utp.GetOutboundPermit)
		if ain > limit || aout > limit {
			w.violate("C16", "over-release", "more slots available (in=%d out=%d) than the limit %d: a slot was returned twice", ain, aout, limit)
		}
		// bounded over time: a peer that accepted the stream of a 3 MB item and never reads keeps the node
		// blocked in its write until the stream's context (that of the dial, 15 s) ends; for all that time the transfer is in
		// progress and must hold its slot. The stream is established, so the node's transfer is certainly
		// running. Judged in fault-free runs only.
		if !faults && !stopped {
			now := w.now()
			writing := 0
			for _, st := range tr.bigStallAt {
				// the node's stream lives on the context of its dial, which began right after the ACCEPT:
				// when the first SYN is lost (handshakes crossing) the stream is established seconds
				// later, but still ends with that context
				if now > st[0]+300*time.Millisecond && now < st[1]+12*time.Second {
					writing++
				}
			}
			if writing > limit-aout {
				w.violate("C16", "outbound-slot-not-held", "%d outbound transfers are certainly in progress (streams established, the peers do not read, 3 MB to write), but only %d of %d outbound slots are taken: a slot was given back before its transfer ended", writing, limit-aout, limit)
			} else if writing > 0 {
				w.res.Probes["outbound_blocked_write_holds_slot_steps"]++
			}
		}
		if limit-ain > 0 {
			w.res.Probes["inbound_slot_held_steps"]++
		}
		if limit-aout > 0 {
			w.res.Probes["outbound_slot_held_steps"]++
		}
	}
	w.checks = append(w.checks, check)
	dialsPendingAtStop := 0
	for _, op := range p.Ops {
		switch op.K {
		case "gossip":
			if stopped {
				continue
			}
			key := append([]byte{0x01}, newPrng(uint64(op.n(0))).bytes(32)...)
			val := valueFor(op.n(0), op.n(1))
			if len(val) >= 3_000_000 {
				tr.bigKeys[string(key)] = true
			}
			var names []string
			for j := 0; j < np; j++ {
				oc := int(op.n(2+j)) % osCount
				script[j] = append(script[j], oc)
				names = append(names, osNames[oc])
			}
			n, err := vp.p.Gossip(nil, [][]byte{key}, [][]byte{val})
			if len(val) >= 3_000_000 {
				w.probe("gossip_3MB_to_stalling_peers")
			}
			w.op("gossip %d bytes -> %d targets err=%v; puppet outcomes %v", len(val), n, err, names)
			w.abstract("gossip n=%d %v", n, names)
			w.probe("gossip")
			if op.n(2+np) == 1 {
				if vp.p.VerifOfferQueueLen() >= 990 {
					w.probe("offer_queue_full")
				}
				continue // burst: the next round follows at the same instant
			}
			w.step(time.Millisecond)
		case "inoffer":
			if stopped {
				continue
			}
			P := pups[int(op.n(0))%np]
			nk := int(op.n(1))
			beh := int(op.n(2)) % ibCount
			var keys, items [][]byte
			for k := 0; k < nk; k++ {
				keys = append(keys, append([]byte{0x01}, newPrng(uint64(op.n(3))+uint64(k)).bytes(32)...))
				items = append(items, valueFor(op.n(3)+int64(k), op.n(4)))
			}
			w.op("inbound offer from %s: %d keys, then %s", P.cfg.name, nk, ibNames[beh])
			w.abstract("inoffer %d %s", nk, ibNames[beh])
			w.probe("inoffer_" + ibNames[beh])
			w.spawn("inoffer", func() error {
				resp, err := P.talk(V.self(), portalwire.History, encOffer(keys))
				if err != nil {
					return err
				}
				ver, _ := highestCommon(pv, vv, true)
				a := decAccept(ver, resp)
				if !a.ok || !a.anyAccepted() || a.connID == 0 {
					w.res.Probes["inoffer_not_accepted"]++
					return nil
				}
				// streams that were established between 1 s and 50 s ago and are being stalled by
				// the puppet certainly still occupy a slot (the node reads with a 60 s deadline)
				sure := 0
				for _, t0 := range tr.stalledSince {
					if age := w.now() - t0; age > time.Second && age < 50*time.Second {
						sure++
					}
				}
				if sure >= limit {
					w.violate("C16", "inbound-over-limit", "an inbound offer was accepted while %d stalled inbound transfers already occupy all %d slots", sure, limit)
				}
				if sure > 0 {
					w.res.Probes["accept_while_some_slots_stalled"]++
				}
				w.res.Probes["inoffer_accepted"]++
				var acc [][]byte
				for _, i := range a.acceptedIdx() {
					if i < len(items) {
						acc = append(acc, items[i])
					}
				}
				return P.sendOfferedContent(tr, V.self(), a.connID, acc, beh)
			})
			w.step(time.Millisecond)
		case "wait":
			w.runFor(time.Duration(op.n(0)) * time.Millisecond)
		case "stop":
			if !stopped {
				for _, t0 := range tr.noListenAt {
					if w.now()-t0 < 11*time.Second {
						dialsPendingAtStop++
					}
				}
				// dials towards listening peers may not have completed on the offerer's side either (the
				// puppet's accept returning says nothing about the last handshake packet under loss): every
				// offer accepted in the last seconds counts as possibly dialling
				for _, t0 := range tr.pendingDial {
					if w.now()-t0 < 11*time.Second {
						dialsPendingAtStop++
					}
				}
				w.op("stop (%d outbound dials pending)", dialsPendingAtStop)
				w.abstract("stop")
				w.probe("stop")
				stopped = true
				w.fault("stop_midway")
				w.spawn("stop", func() error { vp.p.Stop(); return nil })
				w.step(time.Millisecond)
			}
		}
		// keep the validation queue drained (its fullness is C09's subject)
		for len(vp.queue) > 0 {
			<-vp.queue
		}
	}
	// activity has ceased: within 200 virtual seconds every slot must be back
	deadline := 200 * time.Second
	back := w.runUntil(func() bool {
		for len(vp.queue) > 0 {
			<-vp.queue
		}
		return availPermits(V.utp.GetInboundPermit) == limit && availPermits(V.utp.GetOutboundPermit) == limit && w.inflightTasks == 0
	}, deadline)
	ain := availPermits(V.utp.GetInboundPermit)
	aout := availPermits(V.utp.GetOutboundPermit)
	if !back || ain != limit || aout != limit {
		if aout != limit && stopped && limit-aout <= dialsPendingAtStop {
			w.violate("C16", "outbound-slot-leak-stop-during-dial", "Stop() while %d outbound offers were dialing a peer that never answers: %d of %d outbound slots never came back (utp-go ConnectWithCid does not return when its context is cancelled during connect)", dialsPendingAtStop, limit-aout, limit)
		} else if aout != limit {
			w.violate("C16", "outbound-slot-leak", "%d virtual seconds after the last activity only %d of %d outbound slots are available (puppet outcomes so far: %v)", int(deadline.Seconds()), aout, limit, tr.outcomes)
		}
		if ain != limit {
			w.violate("C16", "inbound-slot-leak", "%d virtual seconds after the last activity only %d of %d inbound slots are available", int(deadline.Seconds()), ain, limit)
		}
	}
	for k, v := range tr.outcomes {
		w.res.Probes["out_"+k] += v
		if k != "accept-ok" && k != "decline" {
			w.res.Faults["peer_"+k] += v // every other outcome is an injected peer fault
		}
	}
	w.res.Probes["max_open_in"] = tr.maxIn
	w.res.Probes["max_open_out"] = tr.maxOut
	w.res.Nontrivial = w.res.Probes["gossip"]+w.res.Probes["inoffer_accepted"] > 0
	w.finish()
}
