package sim

import (
	"context"
	"fmt"
	"net"
	"time"

	"github.com/ethereum/go-ethereum/common/hexutil"
	"github.com/ethereum/go-ethereum/core/types"
	"github.com/ethereum/go-ethereum/p2p/enode"
	"github.com/ethereum/go-ethereum/trie"
	"github.com/zen-eth/shisui/portalwire"
)

// C02 — history content is accepted only when bound to its key and the trusted roots.

func init() { engines["c02"] = runC02 }

// contentPeer is a puppet that serves content out of per-network maps.
type contentPeer struct {
	*puppet
	vers     []uint8
	content  map[string]map[string][]byte // protocol id -> key -> content
	asked    []string
	offered  [][]byte // keys the node under test offered to this peer
	fallback func(pid string, key []byte) []byte
	// dialDelay: how long this peer waits after an ACCEPT before it opens the announced stream
	dialDelay time.Duration
	// serveDelay: how long this peer waits before it writes a looked-up item onto the announced stream
	serveDelay time.Duration
	// acceptGossip: accept what the node under test offers and keep what it then sends, so that the
	// engine can judge what the node passes on to its neighbours
	acceptGossip bool
	gossiped     []gossipItem
}

type gossipItem struct{ key, val []byte }

func (w *world) newContentPeer(cfg nodeCfg, peerVers []uint8) *contentPeer {
	cp := &contentPeer{puppet: w.newPuppet(cfg), vers: cfg.versions, content: map[string]map[string][]byte{}}
	for _, id := range portalProtos {
		pid := string(id)
		cp.content[pid] = map[string][]byte{}
		cp.handlers[pid] = func(from *enode.Node, addr *net.UDPAddr, msg []byte) []byte {
			if len(msg) == 0 {
				return nil
			}
			switch msg[0] {
			case portalwire.PING:
				return encPong(cp.self().Seq(), 0, encRadiusPayload(0, maxU256))
			case portalwire.FINDNODES:
				return []byte{portalwire.NODES, 1, 5, 0, 0, 0}
			case portalwire.OFFER:
				ks, err := decOfferKeys(msg)
				if err != nil {
					return nil
				}
				cp.offered = append(cp.offered, ks...)
				ver, _ := highestCommon(cp.vers, peerVers, true)
				if cp.acceptGossip && len(ks) > 0 {
					cid := cp.utp.CidWithAddr(from, addr, false)
					go func() {
						ctx, cancel := context.WithTimeout(context.Background(), 20*time.Second)
						defer cancel()
						st, err := cp.utp.AcceptWithCid(ctx, cid)
						if err != nil {
							return
						}
						rctx, rcancel := context.WithTimeout(context.Background(), 100*time.Second)
						defer rcancel()
						var data []byte
						_, rerr := st.ReadToEOF(rctx, &data)
						st.Close()
						if items, ok := unframeItems(data); rerr == nil && ok && len(items) == len(ks) {
							for i := range ks {
								cp.gossiped = append(cp.gossiped, gossipItem{ks[i], items[i]})
							}
						}
					}()
					all := make([]bool, len(ks))
					for i := range all {
						all[i] = true
					}
					return encAccept(ver, cid.Send, all)
				}
				return encAccept(ver, 0, make([]bool, len(ks)))
			case portalwire.FINDCONTENT:
				if len(msg) < 5 {
					return nil
				}
				key := msg[5:]
				cp.asked = append(cp.asked, pid+":"+string(key))
				c, ok := cp.content[pid][string(key)]
				if !ok && cp.fallback != nil {
					c = cp.fallback(pid, key)
					ok = c != nil
				}
				if !ok {
					return []byte{portalwire.CONTENT, portalwire.ContentEnrsSelector}
				}
				return cp.serve(from, addr, c, peerVers)
			}
			return nil
		}
	}
	return cp
}

// serve answers a FINDCONTENT with inline content or a uTP stream.
func (cp *contentPeer) serve(from *enode.Node, addr *net.UDPAddr, c []byte, peerVers []uint8) []byte {
	if len(c) <= 1100 {
		return append([]byte{portalwire.CONTENT, portalwire.ContentRawSelector}, c...)
	}
	ver, _ := highestCommon(cp.vers, peerVers, true)
	cid := cp.utp.CidWithAddr(from, addr, false)
	go func() {
		ctx, cancel := context.WithTimeout(context.Background(), 20*time.Second)
		defer cancel()
		st, err := cp.utp.AcceptWithCid(ctx, cid)
		if err != nil {
			return
		}
		payload := c
		if ver == 1 {
			payload = append(leb128(uint32(len(c))), c...)
		}
		if cp.serveDelay > 0 {
			time.Sleep(cp.serveDelay)
		}
		wctx, wcancel := context.WithTimeout(context.Background(), 100*time.Second)
		defer wcancel()
		st.Write(wctx, payload)
		st.Close()
	}()
	return []byte{portalwire.CONTENT, portalwire.ContentConnIdSelector, byte(cid.Send >> 8), byte(cid.Send)}
}

// offerTo offers (keys, items) to the node and completes the transfer for whatever is accepted.
func (cp *contentPeer) offerTo(to *enode.Node, id portalwire.ProtocolId, peerVers []uint8, keys, items [][]byte) (accepted int, err error) {
	resp, err := cp.talk(to, id, encOffer(keys))
	if err != nil {
		return 0, err
	}
	ver, _ := highestCommon(cp.vers, peerVers, true)
	a := decAccept(ver, resp)
	if !a.ok || !a.anyAccepted() || len(a.codes) != len(keys) {
		return 0, nil
	}
	var acc [][]byte
	for _, i := range a.acceptedIdx() {
		acc = append(acc, items[i])
	}
	if cp.dialDelay > 0 {
		time.Sleep(cp.dialDelay)
	}
	ctx, cancel := context.WithTimeout(context.Background(), 20*time.Second)
	defer cancel()
	st, err := cp.utp.DialWithCid(ctx, to, a.connID)
	if err != nil {
		return 0, err
	}
	wctx, wcancel := context.WithTimeout(context.Background(), 150*time.Second)
	defer wcancel()
	_, err = st.Write(wctx, frameItems(acc))
	st.Close()
	return len(acc), err
}

func genC02(r *prng) *plan {
	p := &plan{Cfg: map[string]int64{}}
	p.Cfg["vv"] = int64(r.intn(3))
	p.Cfg["faults"] = int64(r.intn(4) / 3)
	n := 3 + r.intn(6)
	for i := 0; i < n; i++ {
		if r.chance(65) {
			// offer: who(0 honest,1 byzantine), block, item, mutation, lie mode, seed
			item := int64(r.intn(4))
			mut := int64(r.intn(21))
			who := int64(r.intn(3) / 2)
			lie := int64(r.intn(4))
			blk := int64(r.intn(23))
			if r.chance(45) {
				// targeted: a byzantine offer of a field-level corruption that fits the item, with an honest header source
				who, lie = 1, 0
				mut = map[int64][]int64{0: {12, 14, 15, 16, 17, 18, 19, 20}, 1: {12, 14, 15, 16, 17, 18}, 2: {11, 12, 14, 14, 15, 16, 17, 18}, 3: {14, 15, 16, 18}}[item][r.intn(4)]
				if item == 2 && r.chance(60) {
					blk = int64([]int{15, 16, 19, 20, 21}[r.intn(5)]) // the blocks with Shanghai-encoded bodies (two mainnet, three synthetic)
				}
			}
			p.Ops = append(p.Ops, opSpec{K: "offer", N: []int64{who, blk, item, mut, lie, int64(r.u64() >> 1)}})
			if r.chance(12) {
				// one offer naming the same key twice: the genuine item first, a forged one second
				p.Ops = append(p.Ops, opSpec{K: "dupoffer", N: []int64{int64(r.intn(23)), int64(r.intn(4)), int64(r.u64() >> 1)}})
			}
			if r.chance(12) {
				// a getter whose lookup is answered late by a lying peer while the genuine item arrives by offer
				p.Ops = append(p.Ops, opSpec{K: "race", N: []int64{int64(1 + r.intn(2)), int64(r.intn(23)), int64(500 + r.intn(4000)), int64(r.u64() >> 1)}})
			}
		} else if r.chance(15) {
			// the genuine and a forged copy of the same item are validated at the same time: one arrives by
			// offer, the other as the answer to a getter's lookup
			p.Ops = append(p.Ops, opSpec{K: "pair", N: []int64{int64(1 + r.intn(2)), int64(r.intn(23)), int64(r.intn(2)), int64(r.u64() >> 1)}})
		} else {
			p.Ops = append(p.Ops, opSpec{K: "get", N: []int64{int64(r.intn(4)), int64(r.intn(23)), int64(r.intn(21)), int64(r.intn(3)), int64(r.u64() >> 1)}})
		}
	}
	if r.chance(35) {
		// validations lose the processor at seeded points (after every n-th allocation on average), and
		// the receiver takes datagrams off the wire in batches, so that several validations are in
		// progress at the same instant
		p.Cfg["preempt"] = int64([]int{1, 2, 3, 5, 9, 17, 40}[r.intn(7)])
		p.Cfg["quantum"] = int64([]int{0, 5, 20, 50}[r.intn(4)])
		p.Cfg["align"] = int64([]int{0, 200, 200, 1000}[r.intn(4)])
		for i := 0; i < 3+r.intn(5); i++ {
			p.Ops = append(p.Ops, opSpec{K: "pair", N: []int64{int64(1 + (r.intn(4)+1)/2), int64(r.intn(23)), int64(r.intn(2)), int64(r.u64() >> 1)}})
		}
	}
	return p
}

func runC02(seed uint64) {
	p := loadOrGenPlan("c02", seed, genC02)
	w := newWorld(seed, "C02", "c02")
	faults := p.cfg("faults") == 1
	w.res.Class = map[bool]string{true: "faults", false: "fault-free"}[faults]
	vv := versionSets[p.cfg("vv")%3]
	genuine := loadGenuineBlocks()
	if len(genuine) < 4 {
		fatal2("c02: genuine block vectors not found")
	}
	bind := newBinder()
	for _, g := range genuine {
		bind.add(g)
		// oracle soundness self-test: every genuine item must be judged bound
		for _, kv := range [][2][]byte{{keyHdrHash(g.hash), g.hdrVal}, {keyHdrNum(g.header.Number.Uint64()), g.hdrVal}, {keyBody(g.hash), g.bodyVal}, {keyRcpt(g.hash), g.rcptVal}} {
			if kv[1] == nil {
				continue
			}
			if why := bind.judge(kv[0], kv[1]); why != "" {
				fatal2(fmt.Sprintf("c02 oracle self-test: genuine %s key %x judged unbound: %s", g.name, kv[0][:1], why))
			}
		}
	}
	// synthetic blocks in each era (numbers inside the era bounds)
	srs := newPrng(seed ^ 0x5c02)
	type synth struct {
		blk              *hblock
		legacy, shanghai []byte
		era              int // -1 pre-merge, 0 merge..capella, 1 capella, 2 deneb
	}
	var synths []synth
	for _, sp := range []struct {
		num uint64
		wd  bool
		era int
	}{{1_000_000, false, -1}, {16_000_000, false, 0}, {18_000_000, true, 1}, {19_500_000, true, 2}, {17_034_870, true, 1}, {15_537_394, false, 0}} {
		blk, legacy, shanghai := synthBlock(srs, sp.num, sp.wd, 1+srs.intn(4), srs.intn(3))
		bind.add(blk)
		synths = append(synths, synth{blk, legacy, shanghai, sp.era})
	}
	blocks := append([]*hblock{}, genuine...)
	for _, sy := range synths {
		blocks = append(blocks, sy.blk)
	}
	synthOf := func(b *hblock) *synth {
		for i := range synths {
			if synths[i].blk == b {
				return &synths[i]
			}
		}
		return nil
	}

	V := w.newFullNode(nodeCfg{name: "V", port: 9001, key: detKey(seed, 1), versions: vv, maxUtp: 20, capacityMB: 1000}, []string{"history", "beacon"})
	H := w.newContentPeer(nodeCfg{name: "H", port: 9002, key: detKey(seed, 2), versions: vv, maxUtp: 50}, vv)
	B := w.newContentPeer(nodeCfg{name: "B", port: 9003, key: detKey(seed, 3), versions: vv, maxUtp: 50}, vv)
	// G only listens: it reports a radius so that the node gossips to it, accepts and keeps what it is sent
	G := w.newContentPeer(nodeCfg{name: "G", port: 9004, key: detKey(seed, 4), versions: vv, maxUtp: 50}, vv)
	G.acceptGossip, H.acceptGossip, B.acceptGossip = true, true, true
	w.spawn("sink-contact", func() error {
		_, e := G.talk(V.self(), portalwire.History, encPing(G.self().Seq(), 0, encRadiusPayload(0, maxU256)))
		return e
	})
	hist := V.nets["history"]
	hpid := string(portalwire.History)
	for _, g := range genuine {
		H.content[hpid][string(keyHdrHash(g.hash))] = g.hdrVal
		H.content[hpid][string(keyHdrNum(g.header.Number.Uint64()))] = g.hdrVal
		if g.bodyVal != nil {
			H.content[hpid][string(keyBody(g.hash))] = g.bodyVal
		}
		if g.rcptVal != nil {
			H.content[hpid][string(keyRcpt(g.hash))] = g.rcptVal
		}
	}
	// historical summaries for the post-Capella eras, served by the honest peer on the beacon network
	for _, v := range loadVectors() {
		if v.Net == "beacon" && len(v.Key) > 0 && v.Key[0] == 0x14 {
			H.content[string(portalwire.Beacon)][string(v.Key)] = v.Val
			// the validator asks for an epoch derived from the slot: answer any summaries key
			val := v.Val
			H.fallback = func(pid string, key []byte) []byte {
				if pid == string(portalwire.Beacon) && len(key) > 0 && key[0] == 0x14 {
					return val
				}
				return nil
			}
		}
	}
	for _, ni := range V.nets {
		ni.p.AddEnr(H.self())
		ni.p.AddEnr(B.self())
	}
	hMuted := false
	hAll := H.content[hpid]
	w.runFor(50 * time.Millisecond)
	if faults {
		w.net.faultsOn = true
		w.net.faults = netFaults{MinLatency: 2 * time.Millisecond, Jitter: 30 * time.Millisecond, DropPct: 3, DupPct: 3}
	}
	pre := uint64(p.cfg("preempt"))
	getterPreempts := uint64(0)
	if pre > 0 {
		w.res.Class += "+preempt"
		w.net.faults.Quantum = time.Duration(p.cfg("quantum")) * time.Millisecond
		for _, ni := range V.nets {
			if ni.val != nil {
				ni.val.preemptEvery, ni.val.preemptSeed, ni.val.alignMs = pre, seed^0x93e, p.cfg("align")
			}
		}
	}
	// preemptible runs fn on the calling goroutine with seeded preemption (in the preempt class)
	preemptible := func(salt uint64, fn func()) {
		if pre == 0 {
			fn()
			return
		}
		verifPreemptMe(pre, seed^salt)
		defer func() { getterPreempts += verifPreemptMe(0, 0) }()
		fn()
	}

	itemOf := func(b *hblock, kind int64) (key, val []byte) {
		switch kind % 4 {
		case 0:
			return keyHdrHash(b.hash), b.hdrVal
		case 1:
			return keyHdrNum(b.header.Number.Uint64()), b.hdrVal
		case 2:
			return keyBody(b.hash), b.bodyVal
		}
		return keyRcpt(b.hash), b.rcptVal
	}
	// header-with-proof for a synthetic block: crafted so that the first proof stage passes
	synthHdrVal := func(sy *synth, rs *prng) []byte {
		if sy.era < 0 {
			c := encHeaderWithProof(sy.blk.hdrRLP, rs.bytes(15*32))
			bind.markInvalid(c)
			return c
		}
		var slot uint64
		switch rs.intn(4) {
		case 0:
			slot = uint64(rs.intn(1 << 22))
		case 1:
			slot = uint64(rs.u64())
		case 2:
			slot = 8192 * uint64(700+rs.intn(200))
		default:
			slot = 6_209_536 + uint64(rs.intn(5_000_000)) // around and after the capella start
		}
		c := encHeaderWithProof(sy.blk.hdrRLP, craftedPostMergeProof(rs, sy.blk.hash, sy.era, slot))
		bind.markInvalid(c)
		return c
	}
	// crafted proof for a canonical post-merge header: the execution-block branch verifies by
	// construction, the beacon branch is random
	craftedFor := func(b *hblock, rs *prng) []byte {
		era := map[string]int{"merge": 0, "capella": 1, "deneb": 2}[eraOf(b)]
		c := encHeaderWithProof(b.hdrRLP, craftedPostMergeProof(rs, b.hash, era, uint64(rs.intn(1<<23))))
		bind.markInvalid(c)
		return c
	}
	_ = craftedFor
	// checkGot: whatever a block getter returns must be bound to the block asked for
	checkGot := func(blk *hblock, gotHdr *types.Header, gotBody *types.Body, gotRcpt []*types.Receipt, err error) {
		ref := blk.header
		switch {
		case gotHdr != nil:
			if gotHdr.Hash() != blk.hash {
				w.violate("C02", "getter-unbound", "GetBlockHeader(%x) returned a header with hash %x", blk.hash[:6], gotHdr.Hash().Bytes()[:6])
			} else if !blk.genuine {
				w.violate("C02", "getter-unbound", "GetBlockHeader returned a header that is not on the canonical chain (no proof against the accumulators can exist)")
			}
			w.probe("getter_returned")
		case gotBody != nil:
			why := ""
			if h := types.DeriveSha(types.Transactions(gotBody.Transactions), trie.NewStackTrie(nil)); h != ref.TxHash {
				why = "transactions root differs from the header's"
			} else if types.CalcUncleHash(gotBody.Uncles) != ref.UncleHash {
				why = "uncles hash differs from the header's"
			} else if ref.WithdrawalsHash != nil && types.DeriveSha(types.Withdrawals(gotBody.Withdrawals), trie.NewStackTrie(nil)) != *ref.WithdrawalsHash {
				why = "withdrawals root differs from the header's"
			} else if ref.WithdrawalsHash == nil && len(gotBody.Withdrawals) > 0 {
				why = "body carries withdrawals the header does not commit to"
			}
			if why != "" {
				w.violate("C02", "getter-unbound", "GetBlockBody(%s) returned a body whose %s", blk.name, why)
			}
			w.probe("getter_returned")
		case gotRcpt != nil && err == nil:
			if h := types.DeriveSha(types.Receipts(gotRcpt), trie.NewStackTrie(nil)); h != ref.ReceiptHash {
				w.violate("C02", "getter-unbound", "GetReceipts(%s) returned receipts whose root differs from the header's", blk.name)
			}
			w.probe("getter_returned")
		}
	}
	nOps := 0
	for opi, op := range p.Ops {
		rs := newPrng(uint64(op.N[len(op.N)-1]) + 3)
		switch op.K {
		case "offer":
			blk := blocks[int(op.n(1))%len(blocks)]
			sy := synthOf(blk)
			if sy != nil && blk.hdrVal == nil {
				blk.hdrVal = synthHdrVal(sy, newPrng(seed+uint64(blk.header.Number.Uint64())))
			}
			key, val := itemOf(blk, op.n(2))
			src := blk // the block whose data the content really is
			mut := op.n(3)
			who := op.n(0)
			if who == 0 {
				mut = 0 // the honest peer offers the item as is
			}
			desc := "as-is"
			switch {
			case mut >= 1 && mut <= 9:
				val = mutate(rs, val, int(mut))
				desc = fmt.Sprintf("mutation-%d", mut)
			case mut == 10:
				src = blocks[rs.intn(len(blocks))]
				_, val = itemOf(src, op.n(2))
				desc = "content-of-" + src.name
			case mut == 11 && sy != nil:
				if op.n(2)%4 == 2 {
					val = sy.legacy
					desc = "legacy-encoded-body-without-withdrawals"
				}
			case mut == 12 && sy != nil:
				if op.n(2)%4 == 2 {
					val = sy.shanghai
					desc = "shanghai-encoded-body"
				}
			case mut == 12 && sy == nil && op.n(2)%4 <= 1 && eraOf(blk) != "premerge":
				val = craftedFor(blk, rs)
				desc = "crafted-proof-for-canonical-header"
			case mut == 13 && len(val) > 0:
				val = append([]byte{}, val...)
				val[len(val)/2] ^= 0x01
				desc = "one-bit-flip"
			case mut >= 14 && mut <= 17:
				// field-level corruption of a body / receipts / header container
				if nv, d := fieldMutate(rs, op.n(2)%4, val, int(mut)); nv != nil {
					val, desc = nv, d
				}
			case mut >= 18:
				// the genuine content under a key that only resembles the right one
				key, desc = keyVariant(rs, key, int(mut))
			}
			if val == nil {
				val = []byte{}
			}
			// who answers the validator's header lookups
			lie := op.n(4)
			if who == 0 {
				lie = 0
			}
			B.fallback = nil
			hMuted = false
			switch lie {
			case 1, 2:
				// B answers every header-by-hash request with the source block's (valid) header
				ans := src.hdrVal
				if ans == nil && synthOf(src) != nil {
					ans = synthHdrVal(synthOf(src), rs)
				}
				B.fallback = func(pid string, k []byte) []byte {
					if pid == hpid && len(k) == 33 && k[0] == 0x00 {
						return ans
					}
					return nil
				}
				hMuted = lie == 1
			case 3:
				hMuted = true
			}
			if hMuted {
				H.content[hpid] = map[string][]byte{}
			} else {
				H.content[hpid] = hAll
			}
			offerer := H
			if who == 1 {
				offerer = B
			}
			var acc int
			okc, err := w.call("offer", 200*time.Second, func() error {
				var e error
				acc, e = offerer.offerTo(V.self(), portalwire.History, vv, [][]byte{key}, [][]byte{val})
				return e
			})
			// validation runs asynchronously and may look headers up
			w.runFor(12 * time.Second)
			verdict := bind.judge(key, val)
			w.op("offer#%d by %s: %s item%d of %s (%d bytes) lie=%d -> accepted=%d ok=%v err=%v; oracle: %s", opi, offerer.cfg.name, desc, op.n(2)%4, blk.name, len(val), lie, acc, okc, err != nil, orBound(verdict))
			w.abstract("offer %s i%d %s lie%d acc%d bound=%v", offerer.cfg.name, op.n(2)%4, descClass(desc), lie, acc, verdict == "")
			if verdict == "" {
				w.probe("offered_bound")
				stored := false
				for _, pr := range hist.store.puts {
					if pr.err == nil && string(pr.key) == string(key) {
						stored = true
					}
				}
				if stored {
					w.probe(fmt.Sprintf("bound_item%d_stored_era_%s", op.n(2)%4, eraOf(blk)))
				} else {
					w.probe(fmt.Sprintf("bound_item%d_not_stored_era_%s", op.n(2)%4, eraOf(blk)))
				}
			} else {
				w.probe("offered_unbound")
			}
			nOps++
		case "get":
			blk := blocks[int(op.n(1))%len(blocks)]
			sy := synthOf(blk)
			if sy != nil && blk.hdrVal == nil {
				blk.hdrVal = synthHdrVal(sy, newPrng(seed+uint64(blk.header.Number.Uint64())))
			}
			getter := op.n(0) % 4
			kind := []int64{0, 2, 3, int64(rs.intn(4))}[getter]
			key, val := itemOf(blk, kind)
			mut := op.n(2)
			src := blk
			switch {
			case mut >= 1 && mut <= 9:
				val = mutate(rs, val, int(mut))
			case mut == 10:
				src = blocks[rs.intn(len(blocks))]
				_, val = itemOf(src, kind)
			case mut == 13 && len(val) > 0:
				val = append([]byte{}, val...)
				val[len(val)/2] ^= 0x01
			case mut >= 14 && mut <= 17:
				if nv, _ := fieldMutate(rs, kind, val, int(mut)); nv != nil {
					val = nv
				}
			}
			mode := op.n(3) // 0: only B answers, 1: B and H, 2: only H
			B.fallback = nil
			B.content[hpid] = map[string][]byte{}
			if mode != 2 && val != nil {
				B.content[hpid][string(key)] = val
				ans := src.hdrVal
				B.fallback = func(pid string, k []byte) []byte {
					if pid == hpid && len(k) == 33 && k[0] == 0x00 && ans != nil {
						return ans
					}
					return nil
				}
			}
			if mode == 0 {
				H.content[hpid] = map[string][]byte{}
			} else {
				H.content[hpid] = hAll
			}
			var gotHdr *types.Header
			var gotBody *types.Body
			var gotRcpt []*types.Receipt
			var gotRaw []byte
			okc, err := w.call("get", 250*time.Second, func() error {
				var e error
				switch getter {
				case 0:
					gotHdr, e = V.histNet.GetBlockHeader(blk.hash[:])
				case 1:
					gotBody, e = V.histNet.GetBlockBody(blk.hash[:])
				case 2:
					gotRcpt, e = V.histNet.GetReceipts(blk.hash[:])
				default:
					var ci *portalwire.ContentInfo
					ci, e = hist.api.RecursiveFindContent(hexutil.Encode(key))
					if ci != nil {
						gotRaw, _ = hexutil.Decode(ci.Content)
					}
				}
				return e
			})
			name := []string{"GetBlockHeader", "GetBlockBody", "GetReceipts", "RecursiveFindContent"}[getter]
			w.op("get#%d %s %s served-mutation=%d answerers=%d -> ok=%v err=%v", opi, name, blk.name, mut, mode, okc, err != nil)
			w.abstract("get %s m%d a%d err=%v", name, mut, mode, err != nil)
			if !okc {
				w.violate("C02", "call-hung", "%s did not return", name)
			}
			checkGot(blk, gotHdr, gotBody, gotRcpt, err)
			_ = gotRaw // portal_historyGetContent returns looked-up content as is (by design of the API)
			nOps++
		case "dupoffer":
			blk := blocks[int(op.n(0))%len(blocks)]
			if synthOf(blk) != nil {
				continue
			}
			key, val := itemOf(blk, op.n(1))
			if len(val) == 0 {
				continue
			}
			forged := append([]byte{}, val...)
			forged[rs.intn(len(forged))] ^= byte(1 << uint(rs.intn(8)))
			H.content[hpid] = hAll
			B.fallback = nil
			var acc int
			okc, err := w.call("offer", 200*time.Second, func() error {
				var e error
				acc, e = B.offerTo(V.self(), portalwire.History, vv, [][]byte{key, key}, [][]byte{val, forged})
				return e
			})
			w.runFor(12 * time.Second)
			w.op("dupoffer#%d by B: item%d of %s twice in one offer, genuine then forged (%d bytes) -> accepted=%d ok=%v err=%v; oracle for the forged one: %s", opi, op.n(1)%4, blk.name, len(val), acc, okc, err != nil, orBound(bind.judge(key, forged)))
			w.abstract("dupoffer i%d acc%d", op.n(1)%4, acc)
			w.probe("dup_key_offers")
			nOps++
		case "pair":
			if op.n(0) == 3 {
				// the header variant: a header-by-number item whose proof was altered is offered while the
				// getter decodes the genuine header of the same block again and again (at every instant at
				// which a held-back validation may begin)
				var eligible []*hblock
				for _, b := range blocks {
					if synthOf(b) == nil && b.genuine && b.hdrVal != nil {
						eligible = append(eligible, b)
					}
				}
				if len(eligible) == 0 {
					continue
				}
				blk := eligible[int(op.n(1))%len(eligible)]
				hdr, proof, derr := decHeaderWithProof(blk.hdrVal)
				if derr != nil || len(proof) < 64 {
					continue
				}
				bad := append([]byte{}, proof...)
				bad[8+rs.intn(len(bad)-16)] ^= byte(1 << uint(rs.intn(8)))
				forged := encHeaderWithProof(hdr, bad)
				key := keyHdrNum(blk.header.Number.Uint64())
				if bind.judge(key, forged) == "" {
					continue
				}
				w.call("pair-header", 60*time.Second, func() error {
					_, e := H.offerTo(V.self(), portalwire.History, vv, [][]byte{keyHdrHash(blk.hash)}, [][]byte{blk.hdrVal})
					return e
				})
				w.runFor(3 * time.Second)
				H.content[hpid] = hAll
				B.fallback = nil
				stopGet := false
				step := time.Duration(p.cfg("align")) * time.Millisecond
				if step <= 0 {
					step = 50 * time.Millisecond
				}
				tg := w.spawn("pair-get", func() error {
					for i := 0; i < 400 && !stopGet; i++ {
						time.Sleep(step - time.Duration(time.Now().UnixNano())%step)
						if h, e := V.histNet.GetBlockHeader(blk.hash[:]); e == nil {
							checkGot(blk, h, nil, nil, nil)
						}
					}
					return nil
				})
				to := w.spawn("pair-offer", func() error {
					_, e := B.offerTo(V.self(), portalwire.History, vv, [][]byte{key}, [][]byte{forged})
					return e
				})
				w.runUntil(func() bool { return to.done }, 120*time.Second)
				w.runFor(6 * time.Second)
				stopGet = true
				w.runUntil(func() bool { return tg.done }, 30*time.Second)
				w.op("pair#%d header-by-number of %s with an altered proof is offered while the getter decodes the genuine header", opi, blk.name)
				w.abstract("pair hdr")
				w.probe("pair_validations")
				nOps++
				continue
			}
			getter := op.n(0) // 1 body, 2 receipts
			item := []int64{0, 2, 3}[getter]
			// a genuine block whose item travels over a stream
			var eligible []*hblock
			for _, b := range blocks {
				if _, v := itemOf(b, item); synthOf(b) == nil && b.genuine && len(v) >= 1200 {
					eligible = append(eligible, b)
				}
			}
			if len(eligible) == 0 {
				continue
			}
			blk := eligible[int(op.n(1))%len(eligible)]
			key, val := itemOf(blk, item)
			var forged []byte
			fdesc := "one bit flipped"
			if nv, d := fieldMutate(rs, item, val, 14+rs.intn(4)); nv != nil && rs.chance(85) {
				forged, fdesc = nv, d
			} else {
				forged = append([]byte{}, val...)
				forged[rs.intn(len(forged))] ^= byte(1 << uint(rs.intn(8)))
			}
			if bind.judge(key, forged) == "" {
				continue // the mutation happened to leave the content bound
			}
			// the header is at hand locally, so that neither validation has to wait for the network
			w.call("pair-header", 60*time.Second, func() error {
				_, e := H.offerTo(V.self(), portalwire.History, vv, [][]byte{keyHdrHash(blk.hash)}, [][]byte{blk.hdrVal})
				return e
			})
			w.runFor(3 * time.Second)
			// mode 0: the lookup is answered with the forged copy, the genuine one is offered;
			// mode 1: the other way round
			lookupVal, offerVal, offerer, answerer := forged, val, H, B
			if op.n(2) == 1 {
				lookupVal, offerVal, offerer, answerer = val, forged, B, H
			}
			none := map[string][]byte{}
			for k, v := range hAll {
				if k != string(key) {
					none[k] = v
				}
			}
			H.content[hpid] = none
			B.fallback = nil
			B.content[hpid] = map[string][]byte{}
			answerer.content[hpid] = map[string][]byte{string(key): lookupVal}
			if answerer == H {
				withKey := map[string][]byte{string(key): lookupVal}
				for k, v := range none {
					withKey[k] = v
				}
				H.content[hpid] = withKey
			}
			var gotBody *types.Body
			var gotRcpt []*types.Receipt
			var gerr error
			tg := w.spawn("pair-get", func() error {
				preemptible(uint64(opi)*131+7, func() {
					if getter == 1 {
						gotBody, gerr = V.histNet.GetBlockBody(blk.hash[:])
					} else {
						gotRcpt, gerr = V.histNet.GetReceipts(blk.hash[:])
					}
				})
				return nil
			})
			to := w.spawn("pair-offer", func() error {
				_, e := offerer.offerTo(V.self(), portalwire.History, vv, [][]byte{key}, [][]byte{offerVal})
				return e
			})
			w.runUntil(func() bool { return tg.done && to.done }, 250*time.Second)
			w.runFor(8 * time.Second)
			H.content[hpid] = hAll
			B.content[hpid] = map[string][]byte{}
			w.op("pair#%d %s of %s: forged copy (%s) %s, genuine copy %s at the same time -> getter err=%v", opi, []string{"", "GetBlockBody", "GetReceipts"}[getter], blk.name, fdesc,
				[]string{"answers the lookup", "is offered"}[op.n(2)%2], []string{"is offered", "answers the lookup"}[op.n(2)%2], gerr != nil)
			w.abstract("pair g%d m%d err=%v", getter, op.n(2), gerr != nil)
			w.probe("pair_validations")
			if !tg.done {
				w.violate("C02", "call-hung", "getter running beside an offer of the same item did not return")
			}
			checkGot(blk, nil, gotBody, gotRcpt, gerr)
			nOps++
		case "race":
			blk := blocks[int(op.n(1))%len(blocks)]
			if synthOf(blk) != nil || !blk.genuine {
				continue
			}
			getter := op.n(0) // 1 body, 2 receipts
			key, val := itemOf(blk, []int64{0, 2, 3}[getter])
			if len(val) < 1200 {
				continue // only items that travel over a stream can be answered late
			}
			forged := append([]byte{}, val...)
			forged[rs.intn(len(forged))] ^= byte(1 << uint(rs.intn(8)))
			if nv, _ := fieldMutate(rs, []int64{0, 2, 3}[getter], val, 14+rs.intn(4)); nv != nil && rs.chance(50) {
				forged = nv
			}
			// the honest peer serves headers but not this item: the lookup is B's to answer, late
			hNo := map[string][]byte{}
			for k, v := range hAll {
				if k != string(key) {
					hNo[k] = v
				}
			}
			H.content[hpid] = hNo
			B.fallback = nil
			B.content[hpid] = map[string][]byte{string(key): forged}
			B.serveDelay = time.Duration(op.n(2)) * time.Millisecond
			var gotBody *types.Body
			var gotRcpt []*types.Receipt
			var gerr error
			tg := w.spawn("race-get", func() error {
				preemptible(uint64(opi)*131+9, func() {
					if getter == 1 {
						gotBody, gerr = V.histNet.GetBlockBody(blk.hash[:])
					} else {
						gotRcpt, gerr = V.histNet.GetReceipts(blk.hash[:])
					}
				})
				return nil
			})
			w.runFor(20 * time.Millisecond)
			to := w.spawn("race-offer", func() error {
				_, e := H.offerTo(V.self(), portalwire.History, vv, [][]byte{key}, [][]byte{val})
				return e
			})
			w.runUntil(func() bool { return tg.done && to.done }, 250*time.Second)
			B.serveDelay = 0
			w.runFor(5 * time.Second)
			w.op("race#%d %s of %s: lookup answered %d ms late by a lying peer while the genuine item is offered -> getter err=%v", opi, []string{"", "GetBlockBody", "GetReceipts"}[getter], blk.name, op.n(2), gerr != nil)
			w.abstract("race g%d err=%v", getter, gerr != nil)
			w.probe("getter_races_offer")
			if !tg.done {
				w.violate("C02", "call-hung", "getter racing an offer did not return")
			}
			checkGot(blk, nil, gotBody, gotRcpt, gerr)
			nOps++
		}
		if len(V.panics) > 0 {
			break
		}
	}
	_ = checkGot
	w.runUntil(func() bool { return w.inflightTasks == 0 }, 200*time.Second)
	w.runFor(15 * time.Second)
	if pre > 0 {
		n := getterPreempts
		for _, ni := range V.nets {
			if ni.val != nil {
				n += ni.val.preempts
			}
		}
		w.res.Faults["preemption"] = int(n)
		if hist.val.stalls > 0 {
			w.res.Faults["goroutine_stall"] = hist.val.stalls
		}
	}
	w.res.Probes["validations_overlapping"] = hist.val.overlaps
	for _, pr := range V.panics {
		w.violate("C02", "panic", "%s panicked instead of rejecting with an error: %v @ %s", pr.where, pr.val, shisuiFrames(pr.stack))
		w.violate("C01", "panic", "%s panicked: %v @ %s", pr.where, pr.val, shisuiFrames(pr.stack))
	}
	// everything the node stored must be bound
	for _, pr := range hist.store.puts {
		if pr.err != nil {
			continue
		}
		if why := bind.judge(pr.key, pr.val); why != "" {
			w.violate("C02", "stored-unbound", "stored under key %x.. (%d bytes): %s", head(pr.key, 7), len(pr.val), why)
		} else {
			w.probe("stored_bound")
		}
	}
	// everything the node passed on to its neighbours must be bound
	for _, cp := range []*contentPeer{G, H, B} {
		for _, gi := range cp.gossiped {
			if why := bind.judge(gi.key, gi.val); why != "" {
				w.violate("C02", "gossiped-unbound", "the node gossiped key %x.. (%d bytes) to %s: %s", head(gi.key, 7), len(gi.val), cp.cfg.name, why)
			} else {
				w.probe("gossiped_bound")
			}
		}
	}
	// validator verdicts: accepted (nil error) items must be bound even if the put failed
	for _, vr := range hist.val.calls {
		if vr.err == nil {
			if why := bind.judge(vr.key, vr.val); why != "" {
				w.violate("C02", "validated-unbound", "the validator accepted key %x.. (%d bytes): %s", head(vr.key, 7), len(vr.val), why)
			}
			w.probe("validator_accepted")
		} else {
			w.probe("validator_rejected")
		}
	}
	w.res.Nontrivial = nOps > 0
	w.finish()
}

func orBound(v string) string {
	if v == "" {
		return "bound"
	}
	return "UNBOUND (" + v + ")"
}

func descClass(d string) string {
	if len(d) > 12 {
		return d[:12]
	}
	return d
}

func eraOf(b *hblock) string {
	n := b.header.Number.Uint64()
	switch {
	case n < 15_537_394:
		return "premerge"
	case n < 17_034_870:
		return "merge"
	case n < 19_426_587:
		return "capella"
	}
	return "deneb"
}

// keyVariant: over-long, short or padded variants of a content key (the content stays genuine).
func keyVariant(rs *prng, key []byte, mut int) ([]byte, string) {
	k := append([]byte{}, key...)
	switch rs.intn(5) {
	case 0:
		// junk between the selector and the payload
		return append(append([]byte{k[0]}, rs.bytes(1+rs.intn(8))...), k[1:]...), "key-with-junk-before-payload"
	case 1:
		return append(k, rs.bytes(1+rs.intn(8))...), "key-with-trailing-junk"
	case 2:
		if len(k) > 2 {
			return append([]byte{k[0]}, k[2:]...), "key-payload-truncated-left"
		}
	case 3:
		if len(k) > 2 {
			return k[:len(k)-1], "key-payload-truncated-right"
		}
	}
	return append(append([]byte{k[0]}, make([]byte, 1+rs.intn(4))...), k[1:]...), "key-zero-padded"
}

// fieldMutate rebuilds a container with one field corrupted while the others stay genuine.
func fieldMutate(rs *prng, item int64, val []byte, mut int) ([]byte, string) {
	switch item {
	case 2: // body
		if len(val) < 12 {
			return nil, ""
		}
		o0 := int(leU32(val))
		n := 2
		if o0 == 12 {
			n = 3
		} else if o0 != 8 {
			return nil, ""
		}
		offs := make([]int, n+1)
		for i := 0; i < n; i++ {
			offs[i] = int(leU32(val[4*i:]))
		}
		offs[n] = len(val)
		for i := 1; i <= n; i++ {
			if offs[i] < offs[i-1] || offs[i] > len(val) {
				return nil, ""
			}
		}
		fields := make([][]byte, n)
		for i := 0; i < n; i++ {
			fields[i] = append([]byte{}, val[offs[i]:offs[i+1]]...)
		}
		desc := ""
		switch mut {
		case 14:
			// uncles field: invalid or different RLP
			fields[1] = [][]byte{{0x01}, {0xc1, 0x80}, {0xff}, {0xc0, 0x00}, rs.bytes(1 + rs.intn(6)), {}}[rs.intn(6)]
			desc = "uncles-field-corrupted"
		case 15:
			// transactions: drop the last or duplicate the first
			txs, err := decByteLists(fields[0])
			if err != nil || len(txs) == 0 {
				return nil, ""
			}
			if rs.chance(50) {
				txs = txs[:len(txs)-1]
				desc = "last-transaction-dropped"
			} else {
				txs = append(txs, txs[0])
				desc = "transaction-duplicated"
			}
			fields[0] = sszLists(txs)
			if len(txs) == 0 {
				fields[0] = nil
			}
		case 16:
			if n < 3 {
				return nil, ""
			}
			wds, err := decByteLists(fields[2])
			if err != nil || len(wds) < 2 {
				return nil, ""
			}
			wds[0], wds[1] = wds[1], wds[0]
			fields[2] = sszLists(wds)
			desc = "withdrawals-reordered"
		default:
			if n < 3 {
				return nil, ""
			}
			wds, err := decByteLists(fields[2])
			if err != nil || len(wds) < 1 {
				return nil, ""
			}
			fields[2] = sszLists(wds[:len(wds)-1])
			if len(wds) == 1 {
				fields[2] = nil
			}
			desc = "last-withdrawal-dropped"
		}
		out := make([]byte, 4*n)
		off := 4 * n
		for i, f := range fields {
			putLeU32(out[4*i:], uint32(off))
			off += len(f)
		}
		for _, f := range fields {
			out = append(out, f...)
		}
		return out, desc
	case 3: // receipts
		rcs, err := decByteLists(val)
		if err != nil || len(rcs) == 0 {
			return nil, ""
		}
		switch mut {
		case 14:
			rcs = rcs[:len(rcs)-1]
			if len(rcs) == 0 {
				return []byte{}, "all-receipts-dropped"
			}
			return sszLists(rcs), "last-receipt-dropped"
		case 15:
			if len(rcs) < 2 {
				return nil, ""
			}
			rcs[0], rcs[1] = rcs[1], rcs[0]
			return sszLists(rcs), "receipts-reordered"
		}
		return sszLists(append(rcs, rcs[0])), "receipt-duplicated"
	default: // header with proof
		hdr, proof, err := decHeaderWithProof(val)
		if err != nil {
			return nil, ""
		}
		switch mut {
		case 14:
			return encHeaderWithProof(append(append([]byte{}, hdr...), 0x00), proof), "header-rlp-with-trailing-byte"
		case 15:
			return encHeaderWithProof(hdr, append(append([]byte{}, proof...), make([]byte, 32)...)), "proof-with-extra-node"
		case 16:
			if len(proof) > 32 {
				return encHeaderWithProof(hdr, proof[:len(proof)-32]), "proof-one-node-short"
			}
		}
		if len(proof) >= 64 {
			p := append([]byte{}, proof...)
			copy(p[:32], proof[32:64])
			copy(p[32:64], proof[:32])
			return encHeaderWithProof(hdr, p), "proof-nodes-swapped"
		}
	}
	return nil, ""
}

func leU32(b []byte) uint32 {
	return uint32(b[0]) | uint32(b[1])<<8 | uint32(b[2])<<16 | uint32(b[3])<<24
}
func putLeU32(b []byte, v uint32) {
	b[0], b[1], b[2], b[3] = byte(v), byte(v>>8), byte(v>>16), byte(v>>24)
}
