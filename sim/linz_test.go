package sim

import (
	"crypto/sha256"
	"fmt"
	"time"

	"github.com/anishathalye/porcupine"
)

// Linearizability of one batch of concurrent store operations (C04 under concurrency): every id is a
// register. An accepted put sets it; a refused put leaves it; a get returns its value or "not found" when
// it is absent. Pruning is the store's own nondeterminism: in a batch in which a prune can have happened
// (usage crosses the capacity, or an id vanished) a register may become absent at any point, which the
// nondeterministic model expresses by offering "absent" as an alternative successor of every step.
// Histories are stamped with scheduler steps (exact order), partitioned by id and checked with porcupine.

type histOp struct {
	client    int
	id        [32]byte
	isGet     bool
	val       []byte
	ok        bool // put accepted / get found
	call, ret int
}

type regIn struct {
	isGet bool
	val   string
}
type regOut struct {
	ok  bool
	val string
}

const regAbsent = "\x00absent"

func linearizableBatch(before map[[32]byte][]byte, ops []histOp, pruneable bool) string {
	byID := map[[32]byte][]histOp{}
	var order [][32]byte
	for _, o := range ops {
		if o.call == 0 || o.ret == 0 || o.ret < o.call {
			continue // never ran to completion under the scheduler: not part of the history
		}
		if _, ok := byID[o.id]; !ok {
			order = append(order, o.id)
		}
		byID[o.id] = append(byID[o.id], o)
	}
	// values are compared by a short digest: the states are copied at every step of the search
	tag := func(v []byte) string {
		h := sha256.Sum256(v)
		return "v" + string(h[:10])
	}
	for _, id := range order {
		if len(byID[id]) > 14 {
			// the search is exponential in the number of overlapping operations on one register: larger
			// partitions are left to the cheaper oracles (never reported either way)
			continue
		}
		init := regAbsent
		if v, ok := before[id]; ok {
			init = tag(v)
		}
		alt := func(s string) []interface{} {
			if pruneable && s != regAbsent {
				return []interface{}{s, regAbsent}
			}
			return []interface{}{s}
		}
		nm := porcupine.NondeterministicModel{
			Init: func() []interface{} { return alt(init) },
			Step: func(state, input, output interface{}) []interface{} {
				st, in, out := state.(string), input.(regIn), output.(regOut)
				switch {
				case !in.isGet && out.ok:
					return alt(in.val)
				case !in.isGet:
					return alt(st) // refused for insufficient radius: nothing changes
				case out.ok:
					if st == out.val {
						return alt(st)
					}
					return nil
				default:
					if st == regAbsent {
						return []interface{}{st}
					}
					return nil
				}
			},
			Equal: func(a, b interface{}) bool { return a.(string) == b.(string) },
		}
		var hist []porcupine.Operation
		for _, o := range byID[id] {
			hist = append(hist, porcupine.Operation{ClientId: o.client, Input: regIn{o.isGet, tag(o.val)}, Output: regOut{o.ok, tag(o.val)}, Call: int64(o.call), Return: int64(o.ret)})
		}
		switch porcupine.CheckOperationsTimeout(nm.ToModel(), hist, 20*time.Second) {
		case porcupine.Illegal:
			desc := ""
			for _, o := range byID[id] {
				k := "put"
				if o.isGet {
					k = "get"
				}
				desc += fmt.Sprintf(" [%s %d bytes ok=%v steps %d-%d]", k, len(o.val), o.ok, o.call, o.ret)
			}
			return fmt.Sprintf("id %s, initially %d bytes (present=%v), prune possible: %v:%s", short(id), len(before[id]), init != regAbsent, pruneable, desc)
		}
	}
	return ""
}
