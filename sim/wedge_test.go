package sim

import (
	"fmt"
	"os"
	"runtime"
	"sort"
	"strings"
	"syscall"
	"time"
	_ "unsafe"
)

// Wedge detection. A goroutine waiting for a sync.Mutex is not "durably blocked" for the synctest bubble,
// so when code under test leaks a lock (returns with it held, or deadlocks on two of them) the bubble never
// becomes idle, virtual time stops and the process just sits there (the scheduler spins: real timers are
// frozen). The runtime overlay counts how often any goroutine is given the processor (verifExecTicks); a
// process whose count stands still over several wall-clock seconds before its run has finished is blocked
// for good. This is not a load-dependent timeout: a starved process still advances the count whenever it
// is scheduled, a wedged one never does. The watcher lives outside the bubble on its own OS thread and
// sleeps in a raw system call; it wakes every few seconds of wall time only (short runs never see it) and
// reads one counter, so it does not disturb the schedule of a live run. Only when the count has stood
// still for several rounds (24 s by default: a machine that swaps can starve a healthy process for seconds) does it
// stop the world to take the goroutine dump.
//
// What it reports: the goroutines that wait on a mutex with code of the repository on their stack. For
// engines whose property includes "the call returns" (curWorld.wedgeIsViolation) that is the violation,
// deterministic like any other (the same plan wedges again on replay); for all others it is harness trouble
// (exit 2) with the same diagnosis.

var curWorld *world

//go:linkname verifExecTickCount runtime.verifExecTickCount
func verifExecTickCount() uint64

func startWedgeWatch() {
	interval := envInt("VERIF_WEDGE_INTERVAL_S", 3)
	rounds := int(envInt("VERIF_WEDGE_ROUNDS", 8))
	go func() {
		runtime.LockOSThread()
		last := verifExecTickCount()
		idle := 0
		for {
			ts := syscall.Timespec{Sec: interval}
			syscall.Nanosleep(&ts, nil)
			ticks := verifExecTickCount()
			// the watcher's own wake-up is one or two ticks
			if ticks-last <= 4 {
				idle++
			} else {
				idle = 0
			}
			last = ticks
			if idle >= rounds {
				reportWedge(time.Duration(int64(rounds)*interval) * time.Second)
			}
		}
	}()
}

func reportWedge(idleFor time.Duration) {
	buf := make([]byte, 16<<20)
	n := runtime.Stack(buf, true)
	var waiters []string
	for _, g := range strings.Split(string(buf[:n]), "\n\n") {
		if !strings.Contains(g, "sync.(*Mutex).Lock") && !strings.Contains(g, "sync.(*RWMutex).Lock") && !strings.Contains(g, "sync.(*RWMutex).RLock") {
			continue
		}
		if f := shisuiFrames(g); f != "" {
			waiters = append(waiters, f)
		}
	}
	sort.Strings(waiters)
	summary := map[string]int{}
	var order []string
	for _, f := range waiters {
		if summary[f] == 0 {
			order = append(order, f)
		}
		summary[f]++
	}
	var parts []string
	for _, f := range order {
		parts = append(parts, fmt.Sprintf("%d x %s", summary[f], f))
	}
	w := curWorld
	if len(waiters) > 0 && w != nil && w.wedgeIsViolation {
		// no argument may depend on wall time or on how many goroutines happened to pile up
		// (appended directly: the journal stamps its lines with the bubble's clock, which this goroutine is outside of)
		w.res.Violations = append(w.res.Violations, violation{Property: w.res.Property, Clause: "wedged",
			Detail: "the run stopped for good: goroutines wait for a mutex that is never released: " + strings.Join(order, "; ")})
		w.res.Probes["wedge_waiters"] = len(waiters)
		w.j.flush()
		w.res.Hash = w.j.hash()
		w.res.Events = w.j.n
		writeResult(w.res)
		os.Exit(0)
	}
	if os.Getenv("VERIF_DUMP") != "" {
		os.Stderr.Write(buf[:n])
	}
	fatal2(fmt.Sprintf("wedged: no goroutine was scheduled for %v before the run finished; mutex waiters in repository code: [%s]", idleFor, strings.Join(parts, "; ")))
}
