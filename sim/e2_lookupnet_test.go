package sim

import (
	"encoding/binary"
	"fmt"
	"net"
	"sort"
	"time"

	"github.com/ethereum/go-ethereum/p2p/enode"
	"github.com/ethereum/go-ethereum/rlp"
	"github.com/zen-eth/shisui/portalwire"
)

// C10 over the real network path: the node lookup that goes through lookupWorker (FINDNODES talk requests
// to real discv5 peers, answer verification, routing-table feedback), which the stub-transport engine
// bypasses. Honest puppets answer FINDNODES with the records they know at the requested distances; some
// are silent. More peers than a bucket holds share the node's farthest buckets, so many of the records the
// node learns only fit its replacement lists.

func init() { engines["lookup-node-net"] = runLookupNodeNet }

func genLookupNodeNet(r *prng) *plan {
	p := &plan{Cfg: map[string]int64{}}
	p.Cfg["np"] = int64([]int{3, 6, 12, 20, 30, 40}[r.intn(6)])
	p.Cfg["known"] = int64(1 + r.intn(6))
	p.Cfg["fanout"] = int64(2 + r.intn(6))
	p.Cfg["silent"] = int64(r.intn(4)) // out of 10 peers
	p.Cfg["maxdelay_ms"] = int64(1 + r.intn(300))
	p.Ops = []opSpec{{K: "lookup", N: []int64{int64(r.u64() >> 1)}}}
	if r.chance(30) {
		p.Ops = append(p.Ops, opSpec{K: "lookup", N: []int64{int64(r.u64() >> 1)}})
	}
	return p
}

// findNodesDistances decodes the distance list of a FINDNODES message (code, offset, uint16 list).
func findNodesDistances(msg []byte) []uint16 {
	if len(msg) < 5 || msg[0] != portalwire.FINDNODES {
		return nil
	}
	var out []uint16
	for b := msg[5:]; len(b) >= 2; b = b[2:] {
		out = append(out, binary.LittleEndian.Uint16(b))
	}
	return out
}

func runLookupNodeNet(seed uint64) {
	p := loadOrGenPlan("lookup-node-net", seed, genLookupNodeNet)
	w := newWorld(seed, "C10", "lookup-node-net")
	w.wedgeIsViolation = true
	w.res.Class = "node-lookup-real-network"
	rs := newPrng(seed ^ 0x10ce)
	V := w.newBase(nodeCfg{name: "V", port: 9001, key: detKey(seed, 1), versions: []uint8{0, 1}, maxUtp: 10, capacityMB: 10})
	vp := V.newPlainProto(portalwire.History)
	np := int(p.cfg("np"))
	type npeer struct {
		*puppet
		knows    []*npeer
		silent   bool
		requests int
		answered [][]*enode.Node // per request: the records handed out
	}
	var pups []*npeer
	for i := 0; i < np; i++ {
		pups = append(pups, &npeer{puppet: w.newPuppet(nodeCfg{name: fmt.Sprintf("P%d", i), port: 9100 + i, key: detKey(seed, 10+i), versions: []uint8{0, 1}, maxUtp: 10})})
	}
	inflight, maxInflight := 0, 0
	counting := false
	for _, pp := range pups {
		pp := pp
		pp.silent = rs.intn(10) < int(p.cfg("silent"))
		for k := 0; k < int(p.cfg("fanout")); k++ {
			pp.knows = append(pp.knows, pups[rs.intn(np)])
		}
		delay := time.Duration(1+rs.intn(int(p.cfg("maxdelay_ms")))) * time.Millisecond
		pp.handlers[string(portalwire.History)] = func(from *enode.Node, addr *net.UDPAddr, msg []byte) []byte {
			if len(msg) == 0 {
				return nil
			}
			switch msg[0] {
			case portalwire.PING:
				return encPong(pp.self().Seq(), 0, encRadiusPayload(0, maxU256))
			case portalwire.FINDNODES:
				if !counting {
					return []byte{portalwire.NODES, 1, 5, 0, 0, 0}
				}
				pp.requests++
				inflight++
				if inflight > maxInflight {
					maxInflight = inflight
				}
				if pp.silent {
					w.fault("peer_silent_timeout")
					time.Sleep(600 * time.Millisecond) // the asker gives up after 700 ms
					inflight--
					time.Sleep(time.Second)
					return nil
				}
				time.Sleep(delay)
				inflight--
				want := map[int]bool{}
				for _, d := range findNodesDistances(msg) {
					want[int(d)] = true
				}
				var recs [][]byte
				var given []*enode.Node
				size := 0
				seen := map[enode.ID]bool{}
				for _, o := range pp.knows {
					if o == pp || seen[o.id()] || !want[enode.LogDist(pp.id(), o.id())] {
						continue
					}
					rec, _ := rlp.EncodeToBytes(o.self().Record())
					if size+len(rec)+4 > 1000 {
						break
					}
					size += len(rec) + 4
					seen[o.id()] = true
					recs = append(recs, rec)
					given = append(given, o.self())
				}
				pp.answered = append(pp.answered, given)
				return append([]byte{portalwire.NODES, 1, 5, 0, 0, 0}, sszLists(recs)...)
			}
			return nil
		}
	}
	for i := 0; i < int(p.cfg("known")) && i < np; i++ {
		vp.p.AddEnr(pups[rs.intn(np)].self())
	}
	w.runFor(30 * time.Millisecond)
	byID := map[enode.ID]*npeer{}
	for _, pp := range pups {
		byID[pp.id()] = pp
	}

	for li, op := range p.Ops {
		var target enode.ID
		copy(target[:], newPrng(uint64(op.n(0))).bytes(32))
		for _, pp := range pups {
			pp.requests, pp.answered = 0, nil
		}
		// what the node knows at the start: its table
		seenAll := map[enode.ID]*enode.Node{}
		for _, b := range vp.p.VerifTable().Nodes() {
			for _, bn := range b {
				seenAll[bn.Node.ID()] = bn.Node
			}
		}
		startKnown := len(seenAll)
		counting = true
		var got []string
		okc, err := w.call("node-lookup", 300*time.Second, func() error {
			var e error
			got, e = vp.api.RecursiveFindNodes(target.String())
			return e
		})
		counting = false
		if !okc {
			w.violate("C10", "not-terminating", "node lookup over %d real peers did not return within 300 virtual seconds", np)
			break
		}
		if err != nil {
			w.violate("C10", "lookup-error", "node lookup failed: %v", err)
			continue
		}
		asked := 0
		for _, pp := range pups {
			if pp.requests > 1 {
				w.violate("C10", "asked-twice", "%s was asked %d times in one lookup", pp.cfg.name, pp.requests)
			}
			if pp.requests > 0 {
				asked++
			}
			for _, given := range pp.answered {
				for _, n := range given {
					seenAll[n.ID()] = n
				}
			}
		}
		if maxInflight > 3 {
			w.violate("C10", "too-many-in-flight", "%d FINDNODES requests of one lookup were being served at the same time", maxInflight)
		}
		delete(seenAll, V.id())
		var result []enode.ID
		dup := map[enode.ID]bool{}
		for _, s := range got {
			n, perr := enode.Parse(enode.ValidSchemes, s)
			if perr != nil {
				w.violate("C10", "result-invalid", "the lookup returned a record that does not parse: %v", perr)
				continue
			}
			if n.ID() == V.id() {
				w.violate("C10", "self-in-result", "the lookup result contains the local node")
			}
			if dup[n.ID()] {
				w.violate("C10", "duplicate-in-result", "node %s appears twice in the result", n.ID().TerminalString())
			}
			dup[n.ID()] = true
			result = append(result, n.ID())
		}
		if len(result) > 16 {
			w.violate("C10", "too-many-results", "%d nodes returned, at most 16 allowed", len(result))
		}
		if !sort.SliceIsSorted(result, func(a, b int) bool { return enode.DistCmp(target, result[a], result[b]) < 0 }) {
			w.violate("C10", "result-not-sorted", "the result is not sorted by distance to the target")
		}
		// no closer seen node omitted: every node the lookup has seen (its table at the start, every record a
		// queried peer handed out) is in the result unless 16 nodes at least as close are
		for id := range seenAll {
			if dup[id] {
				continue
			}
			if len(result) < 16 {
				w.violate("C10", "closer-node-omitted", "seen node %s is missing from a result of only %d nodes", id.TerminalString(), len(result))
				break
			}
			if enode.DistCmp(target, id, result[len(result)-1]) < 0 {
				w.violate("C10", "closer-node-omitted", "seen node %s is closer to the target than the last node of the result", id.TerminalString())
				break
			}
		}
		w.op("lookup#%d over %d real peers (%d known at start): %d asked, %d seen, %d returned, max %d in flight", li, np, startKnown, asked, len(seenAll), len(result), maxInflight)
		w.abstract("netlookup np=%d asked=%d ret=%d", np, asked, len(result))
		w.probe("net_lookup")
		if len(seenAll) > 16 {
			w.probe("net_lookup_more_than_16_seen")
		}
	}
	w.res.Nontrivial = w.res.Probes["net_lookup"] > 0
	w.finish()
}
