package sim

import (
	"os"
	"runtime"
	"runtime/debug"
	"strconv"
	"testing"
	"testing/cryptotest"
	"testing/synctest"
	_ "unsafe"
)

//go:linkname verifSetDetSeed runtime.verifSetDetSeed
func verifSetDetSeed(seed uint64)

//go:linkname verifPreemptMe runtime.verifPreemptMe
func verifPreemptMe(period uint64, seed uint64) uint64

//go:linkname verifSetFreezeRealTimers runtime.verifSetFreezeRealTimers
func verifSetFreezeRealTimers(b bool)

// mustEnv aborts with exit code 2 (harness trouble, never a violation).
func fatal2(msg string) {
	if curWorld != nil && curWorld.j != nil {
		curWorld.j.flush()
	}
	os.Stderr.WriteString("SIMFATAL: " + msg + "\n")
	os.Exit(2)
}

func envInt(name string, def int64) int64 {
	s := os.Getenv(name)
	if s == "" {
		return def
	}
	v, err := strconv.ParseInt(s, 10, 64)
	if err != nil {
		fatal2("bad " + name + ": " + s)
	}
	return v
}

// runBubble executes fn inside one synctest bubble with every source of runtime
// nondeterminism pinned to seed. One call per OS process.
func runBubble(t *testing.T, seed uint64, fn func()) {
	if runtime.GOMAXPROCS(0) != 1 {
		fatal2("GOMAXPROCS must be 1 (run with -test.cpu 1)")
	}
	debug.SetGCPercent(-1)
	runtime.GC()
	cryptotest.SetGlobalRandom(t, seed)
	verifSetDetSeed(seed)
	verifSetFreezeRealTimers(true)
	defer verifSetFreezeRealTimers(false)
	startWedgeWatch()
	// files are read now, while this is the only goroutine: a read is a system call (see journal.logf)
	switch os.Getenv("VERIF_ENGINE") {
	case "c01", "c02", "smoke":
		loadVectors()
	case "c20", "c11":
		c20BigKeys()
	}
	func() {
		defer func() {
			if r := recover(); r != nil {
				// synctest panics with "deadlock: all goroutines in bubble are blocked"
				// when the root function returned and abandoned goroutines remain
				// durably blocked; that is how a run normally ends.
				if s, ok := r.(string); ok && len(s) >= 8 && s[:8] == "deadlock" {
					return
				}
				panic(r)
			}
		}()
		synctest.Test(t, func(t *testing.T) { fn() })
	}()
}
