package sim

import (
	"bytes"
	"context"
	"fmt"
	"time"

	"github.com/holiman/uint256"
	"github.com/zen-eth/shisui/portalwire"
	"github.com/zen-eth/shisui/storage"
)

// C09 — OFFER gets one verdict per key and accepted content arrives intact under its key.

func init() { engines["c09"] = runC09 }

const (
	c9Complete = iota
	c9Slow     // dial 8 s after the ACCEPT, then complete: keeps the keys in flight meanwhile
	c9NoDial
	c9WrongCount
	c9Garbage
	c9FewerItems // a cleanly framed stream that ends one item early (no item at all for a single accepted key)
	c9Count
)

var c9Names = []string{"complete", "slow-complete", "no-dial", "wrong-count", "garbage", "fewer-items"}

func genC09(r *prng) *plan {
	p := &plan{Cfg: map[string]int64{}}
	p.Cfg["vv"] = int64(r.intn(3))
	p.Cfg["pv"] = int64(r.intn(3))
	p.Cfg["limit"] = int64(r.intn(4))
	if r.chance(30) {
		p.Cfg["limit"] = int64(5 + r.intn(20))
	}
	p.Cfg["qcap"] = int64(1 + r.intn(4))
	p.Cfg["drain"] = int64(r.intn(4))  // 0: never drain (queue fills up)
	p.Cfg["radius"] = int64(r.intn(3)) // 0 max, 1 2^255, 2 2^254
	p.Cfg["faults"] = 0
	if r.chance(35) {
		p.Cfg["faults"] = 1
	}
	p.Cfg["drop"] = int64(r.intn(8))
	p.Cfg["jitter_ms"] = int64(r.intn(80))
	np := 1 + r.intn(3)
	p.Cfg["np"] = int64(np)
	nkeys := 6 + r.intn(10)
	p.Cfg["nkeys"] = int64(nkeys)
	for i := 0; i < nkeys/3; i++ {
		p.Ops = append(p.Ops, opSpec{K: "prestore", N: []int64{int64(r.intn(nkeys))}})
	}
	n := 3 + r.intn(9)
	for i := 0; i < n; i++ {
		nk := r.intn(5)
		if r.chance(15) {
			nk = r.intn(65)
		}
		o := opSpec{K: "offer", N: []int64{int64(r.intn(np)), int64(r.intn(c9Count)), int64(r.intn(3000)), int64(r.intn(2))}}
		for k := 0; k < nk; k++ {
			if nk > 8 {
				o.N = append(o.N, int64(100+r.intn(100000))) // fresh keys for large offers
			} else {
				o.N = append(o.N, int64(r.intn(nkeys)))
			}
		}
		p.Ops = append(p.Ops, o)
		if r.chance(60) {
			p.Ops = append(p.Ops, opSpec{K: "wait", N: []int64{int64(r.intn(6000))}})
		}
	}
	if np >= 2 && r.chance(40) {
		// offerers with different version sets against a node that speaks both
		p.Cfg["mixed"], p.Cfg["vv"] = 1, 2
	}
	if r.chance(35) {
		// the offer path of the node runs under the statement-level yield scheduler: handlers of offers that
		// arrive together interleave wherever they hold no lock
		p.Cfg["ysched"] = int64(1 + r.intn(1<<30))
	}
	return p
}

type c9offer struct {
	id          int
	puppet      *puppet
	keys        [][]byte
	items       [][]byte
	beh         int
	sentAt      time.Duration
	replyAt     time.Duration
	earliestEnd time.Duration // the accepted transfer cannot have ended before this instant
	ver         uint8         // version negotiated with this offer's puppet
	reply       acceptReply
	accKeys     [][]byte
	accItems    [][]byte
	wrote       bool // complete stream written and closed without error
	wroteAt     time.Duration
	matched     bool
}

func c9key(i int64) []byte {
	if i >= 100 {
		// short keys for large offers: 64 keys must fit one request packet
		return append([]byte{0x01}, newPrng(uint64(i)*7919+13).bytes(9)...)
	}
	return append([]byte{0x01}, newPrng(uint64(i)*7919+13).bytes(31)...)
}

func runC09(seed uint64) {
	p := loadOrGenPlan("c09", seed, genC09)
	w := newWorld(seed, "C09", "c09")
	faults := p.cfg("faults") == 1
	w.res.Class = map[bool]string{true: "faults", false: "fault-free"}[faults]
	vv, pv := versionSets[p.cfg("vv")%3], versionSets[p.cfg("pv")%3]
	// mixed runs: the offerers advertise different version sets, so a key can be in flight from a
	// version-0 exchange when a version-1 offer names it
	pvOf := func(i int) []uint8 {
		if p.cfg("mixed") == 1 {
			return versionSets[(int(p.cfg("pv"))+i)%3]
		}
		return pv
	}
	limit := int(p.cfg("limit"))
	deco := &decoStore{}
	switch p.cfg("radius") {
	case 1:
		deco.radius = new(uint256.Int).Lsh(uint256.NewInt(1), 255)
	case 2:
		deco.radius = new(uint256.Int).Lsh(uint256.NewInt(1), 254)
	}
	V := w.newBase(nodeCfg{name: "V", port: 9001, key: detKey(seed, 1), versions: vv, maxUtp: limit, capacityMB: 100, queueCap: int(p.cfg("qcap")),
		wrapStore: func(s storage.ContentStorage) storage.ContentStorage { deco.inner = s; return deco }})
	vp := V.newPlainProto(portalwire.History)
	if ys := p.cfg("ysched"); ys != 0 {
		w.ys, w.ysRng = newYsched(mutexesOf(vp.p)), newPrng(uint64(ys))
		portalwire.VerifProtoYieldHook = w.ys.yield
		w.ys.wake = w.net.wake
		w.ys.on = true
		w.probe("offer_path_yield_scheduled")
	}
	np := int(p.cfg("np"))
	if np < 1 {
		np = 1
	}
	var pups []*puppet
	for i := 0; i < np; i++ {
		pups = append(pups, w.newPuppet(nodeCfg{name: fmt.Sprintf("P%d", i), port: 9100 + i, key: detKey(seed, 10+i), versions: pvOf(i), maxUtp: 50}))
	}
	w.runFor(30 * time.Millisecond)
	if faults {
		w.net.faultsOn = true
		w.net.faults = netFaults{MinLatency: 2 * time.Millisecond, Jitter: time.Duration(p.cfg("jitter_ms")) * time.Millisecond, DropPct: int(p.cfg("drop")), DupPct: 3}
	}
	tr := newOfferTracker()
	tr.now = w.now
	storedAt := map[string]time.Duration{}
	var offers []*c9offer
	var elements []*portalwire.ContentElement
	drainMode := p.cfg("drain")
	// instants at which the drain found the queue full: an element completed around then may have been
	// discarded by the node's non-blocking hand-over, which the statement allows ("a full ... queue")
	var fullAt []time.Duration
	drain := func() {
		if len(vp.queue) > 0 && len(vp.queue) == cap(vp.queue) {
			fullAt = append(fullAt, w.now())
		}
		for len(vp.queue) > 0 {
			elements = append(elements, <-vp.queue)
		}
	}
	if drainMode != 0 {
		// a drained queue is drained all the time, not only between the plan's operations
		w.checks = append(w.checks, drain)
	}
	// in-flight windows: key -> list of [from,to) during which it is certainly being received
	inflight := map[string][]struct{ from, to time.Duration }{}
	accBy := map[string][]*c9offer{} // key -> offers in which the node accepted it

	for _, op := range p.Ops {
		switch op.K {
		case "prestore":
			key := c9key(op.n(0))
			if err := vp.p.Put(key, vp.p.ToContentId(key), []byte("stored")); err == nil {
				if _, ok := storedAt[string(key)]; !ok {
					storedAt[string(key)] = w.now()
				}
			}
			w.op("prestore key#%d", op.n(0))
		case "wait":
			w.runFor(time.Duration(op.n(0)) * time.Millisecond)
		case "offer":
			o := &c9offer{id: len(offers), puppet: pups[int(op.n(0))%np], beh: int(op.n(1)) % c9Count}
			ver, common := highestCommon(pvOf(int(op.n(0))%np), vv, true)
			o.ver = ver
			for i := 4; i < len(op.N); i++ {
				o.keys = append(o.keys, c9key(op.N[i]))
				o.items = append(o.items, valueFor(int64(o.id)*1000+int64(i), op.n(2)*int64(1+i%3)/2))
			}
			offers = append(offers, o)
			w.op("offer#%d from %s: %d keys, then %s", o.id, o.puppet.cfg.name, len(o.keys), c9Names[o.beh])
			w.abstract("offer n=%d %s", len(o.keys), c9Names[o.beh])
			w.spawn("offer", func() error {
				return c9RunOffer(w, V, vp, o, tr, ver, common, faults, limit, storedAt, inflight, accBy)
			})
			if op.n(3) == 1 {
				// sequential: wait for the reply before the next operation
				w.runUntil(func() bool { return o.replyAt != 0 }, 3*time.Second)
			} else {
				w.step(time.Millisecond)
			}
		}
		if drainMode != 0 {
			drain()
		}
	}
	// let everything finish
	w.runUntil(func() bool { return w.inflightTasks == 0 }, 200*time.Second)
	w.runFor(20 * time.Second)
	if drainMode != 0 {
		drain()
	} else {
		drain() // final drain to inspect what was enqueued
	}
	// every element handed to validation must be exactly one offer's accepted keys with its contents
	for _, el := range elements {
		// candidates: unmatched offers from that node whose accepted keys are exactly these keys in order
		var cands []*c9offer
		for _, o := range offers {
			if o.matched || o.puppet.id() != el.Node || len(o.accKeys) != len(el.ContentKeys) || len(o.accKeys) == 0 {
				continue
			}
			same := true
			for i := range o.accKeys {
				if !bytes.Equal(o.accKeys[i], el.ContentKeys[i]) {
					same = false
				}
			}
			if same {
				cands = append(cands, o)
			}
		}
		if len(cands) == 0 {
			w.violate("C09", "unexpected-element", "validation got %d keys / %d items from %s that match no accepted offer's keys in order", len(el.ContentKeys), len(el.Contents), el.Node.TerminalString())
			continue
		}
		// overlapping offers can accept the same keys: the element is fine if any candidate explains it fully
		var match *c9offer
		for _, o := range cands {
			if o.beh != c9Complete && o.beh != c9Slow {
				continue
			}
			if len(el.Contents) != len(o.accItems) {
				continue
			}
			eq := true
			for i := range el.Contents {
				if !bytes.Equal(el.Contents[i], o.accItems[i]) {
					eq = false
				}
			}
			if eq {
				match = o
				break
			}
		}
		if match != nil {
			match.matched = true
			w.probe("element_ok")
			continue
		}
		o := cands[0]
		o.matched = true
		switch {
		case o.beh == c9WrongCount || o.beh == c9Garbage || o.beh == c9NoDial || o.beh == c9FewerItems:
			w.violate("C09", "bad-stream-enqueued", "offer#%d sent a %s stream, yet an element with its keys was handed to validation", o.id, c9Names[o.beh])
		case len(el.Contents) != len(o.accItems):
			w.violate("C09", "pairing", "offer#%d: %d accepted keys but %d contents handed to validation", o.id, len(o.accKeys), len(el.Contents))
		default:
			w.violate("C09", "pairing", "offer#%d: contents handed to validation are not the contents offered under those keys", o.id)
		}
	}
	// completeness, fault-free, drained queue: a completed transfer must have been enqueued
	if !faults && drainMode != 0 {
		for _, o := range offers {
			if o.wrote && (o.beh == c9Complete || o.beh == c9Slow) && !o.matched {
				wasFull := false
				for _, t := range fullAt {
					if t >= o.wroteAt-time.Second && t <= o.wroteAt+5*time.Second {
						wasFull = true
					}
				}
				if wasFull {
					w.probe("completed_while_queue_full") // several transfers ended in one instant on a tiny queue
					continue
				}
				w.violate("C09", "lost-transfer", "offer#%d: the complete stream for %d accepted keys was written and closed, the queue was drained, but nothing reached validation", o.id, len(o.accKeys))
			}
		}
	}
	w.res.Nontrivial = w.res.Probes["reply_ok"] >= 1
	w.finish()
}

func c9RunOffer(w *world, V *baseNode, vp *proto, o *c9offer, tr *offerTracker, ver uint8, common, faults bool, limit int, storedAt map[string]time.Duration, inflight map[string][]struct{ from, to time.Duration }, accBy map[string][]*c9offer) error {
	o.sentAt = w.now()
	resp, err := o.puppet.talk(V.self(), portalwire.History, encOffer(o.keys))
	o.replyAt = w.now()
	if o.replyAt == 0 {
		o.replyAt = 1
	}
	if err != nil {
		if !faults {
			w.violate("C09", "no-reply", "offer#%d (%d keys) got no reply in a fault-free run: %v", o.id, len(o.keys), err)
		}
		w.probe("reply_err")
		return nil
	}
	if !common {
		// no common version: an empty reply (clean refusal) is what C19 demands
		if len(resp) != 0 {
			w.probe("reply_without_common_version")
		}
		return nil
	}
	a := decAccept(ver, resp)
	if !a.ok {
		if len(resp) == 0 && len(o.keys) == 0 {
			w.probe("empty_offer_empty_reply")
			return nil
		}
		w.violate("C09", "malformed-accept", "offer#%d (%d keys, v%d): reply not decodable: %s", o.id, len(o.keys), ver, a.why)
		return nil
	}
	o.reply = a
	w.probe("reply_ok")
	if len(a.codes) != len(o.keys) {
		w.violate("C09", "verdict-count", "offer#%d: %d keys offered, %d verdicts in the v%d reply", o.id, len(o.keys), len(a.codes), ver)
		return nil
	}
	now := w.now()
	// the transfer of this offer cannot have ended before the puppet dials (or, if it never does,
	// before the node's own 15 s wait for the connection is over)
	if a.anyAccepted() && o.beh != c9Complete {
		w.fault("offerer_" + c9Names[o.beh]) // accepted transfer that the offerer then delays, abandons or corrupts
	}
	switch o.beh {
	case c9NoDial:
		o.earliestEnd = o.sentAt + 15*time.Second
	case c9Slow:
		o.earliestEnd = now + 8*time.Second
	default:
		o.earliestEnd = now
	}
	seenKey := map[string]bool{}
	for _, i := range a.acceptedIdx() {
		k := o.keys[i]
		if !seenKey[string(k)] {
			// two offers both accepted k: one of them was handled first, and its transfer was still
			// pending when the other was handled unless it could have ended before the other's reply.
			// Only a version-1 exchange is bound by the rule: with mixed versions the later one must be
			// known (x's reply had arrived before o was sent) and be the version-1 one.
			for _, x := range accBy[string(k)] {
				bothV1 := ver == 1 && x.ver == 1 && o.replyAt <= x.earliestEnd && x.replyAt <= o.earliestEnd
				laterIsV1 := ver == 1 && x.replyAt < o.sentAt && o.replyAt <= x.earliestEnd
				if x != o && (bothV1 || laterIsV1) {
					w.violate("C09", "accepted-in-flight", "offer#%d key %d accepted (v1) although offer#%d, still pending, had the same key accepted (replies at %v and %v, neither transfer could have ended before the other reply)", o.id, i, x.id, x.replyAt, o.replyAt)
				}
			}
			accBy[string(k)] = append(accBy[string(k)], o)
			seenKey[string(k)] = true
		}
		if !vp.p.InRange(vp.p.ToContentId(k)) {
			w.violate("C09", "accepted-out-of-range", "offer#%d key %d accepted although the node's own in-range test rejects it", o.id, i)
		}
		if t, ok := storedAt[string(k)]; ok && t < o.sentAt {
			w.violate("C09", "accepted-stored", "offer#%d key %d accepted although the node already stores it", o.id, i)
		}
		if ver == 1 {
			for _, win := range inflight[string(k)] {
				if o.sentAt > win.from && now < win.to {
					w.violate("C09", "accepted-in-flight", "offer#%d key %d accepted (v1) while the same key is being received from an earlier offer", o.id, i)
				}
			}
		}
		o.accKeys = append(o.accKeys, k)
		o.accItems = append(o.accItems, o.items[i])
	}
	// duplicates inside one offer would make pairing ambiguous for the harness: fine, order is kept
	if a.anyAccepted() {
		w.probe("accepted")
		if limit == 0 {
			w.violate("C09", "accepted-without-slot", "offer#%d: keys accepted although the node has no transfer slots at all", o.id)
		}
		sure := 0
		for _, t0 := range tr.stalledSince {
			if age := o.sentAt - t0; age > time.Second && now-t0 < 50*time.Second {
				sure++
			}
		}
		if limit > 0 && sure >= limit {
			w.violate("C09", "accepted-without-slot", "offer#%d: keys accepted while %d stalled transfers occupy all %d slots", o.id, sure, limit)
		}
	} else {
		w.probe("declined")
		if a.connID != 0 {
			w.probe("declined_with_connid")
		}
		return nil
	}
	// the announced connection id must be one the node really waits on
	if o.beh == c9NoDial {
		for _, k := range o.accKeys {
			inflight[string(k)] = append(inflight[string(k)], struct{ from, to time.Duration }{now + 500*time.Millisecond, now + 12*time.Second})
		}
		return nil
	}
	if o.beh == c9Slow {
		for _, k := range o.accKeys {
			inflight[string(k)] = append(inflight[string(k)], struct{ from, to time.Duration }{now + 500*time.Millisecond, now + 7*time.Second})
		}
		time.Sleep(8 * time.Second)
	}
	ctx, cancel := context.WithTimeout(context.Background(), 20*time.Second)
	defer cancel()
	st, err := o.puppet.utp.DialWithCid(ctx, V.self(), a.connID)
	if err != nil {
		if !faults {
			w.violate("C09", "accepted-but-not-listening", "offer#%d: %d keys accepted with connection id %d, but dialling it fails (%v): nobody is waiting on it", o.id, len(o.accKeys), a.connID, err)
		}
		return nil
	}
	w.probe("dial_ok")
	var payload []byte
	switch o.beh {
	case c9WrongCount:
		payload = frameItems(append(append([][]byte{}, o.accItems...), []byte("surplus")))
	case c9Garbage:
		payload = []byte{0xff, 0xff, 0xff, 0xff, 0xff, 0xff, 0x01}
	case c9FewerItems:
		payload = frameItems(o.accItems[:len(o.accItems)-1])
	default:
		payload = frameItems(o.accItems)
	}
	wctx, wcancel := context.WithTimeout(context.Background(), 100*time.Second)
	defer wcancel()
	_, werr := st.Write(wctx, payload)
	st.Close()
	if werr == nil {
		o.wrote = true
		o.wroteAt = w.now()
		w.probe("stream_written_" + c9Names[o.beh])
	} else if !faults {
		w.violate("C09", "transfer-failed", "offer#%d: writing %d bytes on the announced connection failed in a fault-free run: %v", o.id, len(payload), werr)
	}
	return nil
}
