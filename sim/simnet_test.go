package sim

import (
	"container/heap"
	"crypto/sha256"
	"errors"
	"fmt"
	"net"
	"net/netip"
	"os"
	"sync"
	"time"
)

// ---------- simulated UDP network ----------

type datagram struct {
	from, to netip.AddrPort
	data     []byte
	at       time.Duration // delivery time (virtual, since run start)
	seq      uint64
}

type dgHeap []*datagram

func (h dgHeap) Len() int { return len(h) }
func (h dgHeap) Less(i, j int) bool {
	if h[i].at != h[j].at {
		return h[i].at < h[j].at
	}
	return h[i].seq < h[j].seq
}
func (h dgHeap) Swap(i, j int) { h[i], h[j] = h[j], h[i] }
func (h *dgHeap) Push(x any)   { *h = append(*h, x.(*datagram)) }
func (h *dgHeap) Pop() any {
	old := *h
	n := len(old)
	x := old[n-1]
	*h = old[:n-1]
	return x
}

type inPkt struct {
	data []byte
	from netip.AddrPort
}

// simSock implements discover.UDPConn.
type simSock struct {
	net    *simNet
	addr   netip.AddrPort
	in     chan inPkt
	closed chan struct{}
	once   sync.Once
	name   string
	// per-socket counters
	sent, recv int
}

var errSockClosed = net.ErrClosed

func (s *simSock) ReadFromUDPAddrPort(b []byte) (int, netip.AddrPort, error) {
	select {
	case p := <-s.in:
		n := copy(b, p.data)
		return n, p.from, nil
	case <-s.closed:
		return 0, netip.AddrPort{}, errSockClosed
	}
}

func (s *simSock) WriteToUDPAddrPort(b []byte, addr netip.AddrPort) (int, error) {
	select {
	case <-s.closed:
		return 0, errSockClosed
	default:
	}
	s.net.write(s, b, addr)
	return len(b), nil
}

func (s *simSock) Close() error {
	s.once.Do(func() { close(s.closed) })
	return nil
}

func (s *simSock) LocalAddr() net.Addr {
	return &net.UDPAddr{IP: s.addr.Addr().AsSlice(), Port: int(s.addr.Port())}
}

// linkFaults configures what the network does to datagrams.
type netFaults struct {
	DropPct    int           // percent of datagrams dropped
	DupPct     int           // percent duplicated
	MinLatency time.Duration // base one-way latency
	Jitter     time.Duration // uniform extra latency (reordering when > inter-packet gap)
	SlowPct    int           // percent of datagrams delayed by an extra SlowBy
	SlowBy     time.Duration
	// Quantum > 0: deliveries happen at multiples of it only (a receiver that polls its socket, interrupt
	// coalescing): everything that arrives within one quantum is handed over at the same instant
	Quantum time.Duration
}

var dglog = os.Getenv("VERIF_DGLOG") != ""

type simNet struct {
	mu       sync.Mutex
	start    time.Time
	socks    map[netip.AddrPort]*simSock
	outbox   []*datagram
	pending  dgHeap
	seq      uint64
	wake     chan struct{}
	seed     uint64
	faults   netFaults
	faultsOn bool
	linkIdx  map[[2]netip.AddrPort]uint64
	// partitions: set of blocked (from,to) address pairs
	blocked map[[2]netip.AddrPort]bool
	// stalled destinations: deliveries held until unstalled
	stalled map[netip.AddrPort]bool
	held    []*datagram
	// observers see every datagram at send time (before the fate decision)
	onSend func(d *datagram)
	// counters of fired faults
	stats       map[string]int
	maxDatagram int
	nsent       int
	nh          [32]byte
	log         *journal
}

func newSimNet(seed uint64, j *journal) *simNet {
	return &simNet{
		start:   time.Now(),
		socks:   map[netip.AddrPort]*simSock{},
		wake:    make(chan struct{}, 1),
		seed:    seed,
		linkIdx: map[[2]netip.AddrPort]uint64{},
		blocked: map[[2]netip.AddrPort]bool{},
		stalled: map[netip.AddrPort]bool{},
		stats:   map[string]int{},
		faults:  netFaults{MinLatency: 2 * time.Millisecond},
		log:     j,
	}
}

func (n *simNet) now() time.Duration { return time.Since(n.start) }

func (n *simNet) listen(addr string, name string) *simSock {
	ap := netip.MustParseAddrPort(addr)
	n.mu.Lock()
	defer n.mu.Unlock()
	if old, ok := n.socks[ap]; ok {
		select {
		case <-old.closed:
		default:
			panic("sim: address in use " + addr)
		}
	}
	s := &simSock{net: n, addr: ap, in: make(chan inPkt, 4096), closed: make(chan struct{}), name: name}
	n.socks[ap] = s
	return s
}

func (n *simNet) write(s *simSock, b []byte, to netip.AddrPort) {
	d := &datagram{from: s.addr, to: to, data: append([]byte(nil), b...)}
	n.mu.Lock()
	n.seq++
	d.seq = n.seq
	n.outbox = append(n.outbox, d)
	s.sent++
	if len(b) > n.maxDatagram {
		n.maxDatagram = len(b)
	}
	n.mu.Unlock()
	select {
	case n.wake <- struct{}{}:
	default:
	}
}

// splitmix-style pure hash for per-link decisions: a function of (seed, link, index) only,
// so removing an unrelated operation while shrinking does not reshuffle other links.
func mix64(x uint64) uint64 {
	x += 0x9e3779b97f4a7c15
	x = (x ^ (x >> 30)) * 0xbf58476d1ce4e5b9
	x = (x ^ (x >> 27)) * 0x94d049bb133111eb
	return x ^ (x >> 31)
}

func apHash(a netip.AddrPort) uint64 {
	b := a.Addr().As16()
	var h uint64 = uint64(a.Port())
	for _, c := range b {
		h = h*131 + uint64(c)
	}
	return h
}

// route moves written datagrams to the pending heap, deciding their fate.
func (n *simNet) route() {
	n.mu.Lock()
	out := n.outbox
	n.outbox = nil
	n.mu.Unlock()
	now := n.now()
	for _, d := range out {
		if n.onSend != nil {
			n.onSend(d)
		}
		// every datagram enters the run's fingerprint (sender, receiver, content), so that the determinism
		// check and replays compare the complete traffic, not only what the engine chose to log
		n.nsent++
		hh := sha256.New()
		hh.Write(n.nh[:])
		fmt.Fprintf(hh, "%s>%s %d %x", d.from, d.to, len(d.data), sum8(d.data))
		copy(n.nh[:], hh.Sum(nil))
		if dglog {
			n.log.logf("DG %s>%s len=%d h=%x", d.from, d.to, len(d.data), sum8(d.data))
		}
		key := [2]netip.AddrPort{d.from, d.to}
		idx := n.linkIdx[key]
		n.linkIdx[key] = idx + 1
		if n.blocked[key] {
			n.stats["partition_drop"]++
			continue
		}
		lat := n.faults.MinLatency
		if n.faultsOn {
			r := mix64(n.seed ^ mix64(apHash(d.from)*3+apHash(d.to)) ^ mix64(idx))
			if int(r%100) < n.faults.DropPct {
				n.stats["drop"]++
				continue
			}
			r = mix64(r)
			if n.faults.Jitter > 0 {
				lat += time.Duration(r % uint64(n.faults.Jitter))
				n.stats["jitter"]++
			}
			r = mix64(r)
			if int(r%100) < n.faults.SlowPct {
				lat += n.faults.SlowBy
				n.stats["slow"]++
			}
			r = mix64(r)
			if int(r%100) < n.faults.DupPct {
				n.stats["dup"]++
				dd := *d
				n.seq++
				dd.seq = n.seq
				dd.at = now + lat + time.Duration(mix64(r)%uint64(20*time.Millisecond))
				heap.Push(&n.pending, &dd)
			}
		}
		d.at = now + lat
		if q := n.faults.Quantum; q > 0 {
			d.at = (d.at + q - 1) / q * q
			n.stats["batched_delivery"]++
		}
		heap.Push(&n.pending, d)
	}
}

// deliverDue hands over every pending datagram whose time has come.
func (n *simNet) deliverDue() int {
	now := n.now()
	cnt := 0
	for n.pending.Len() > 0 && n.pending[0].at <= now {
		d := heap.Pop(&n.pending).(*datagram)
		if n.stalled[d.to] {
			n.held = append(n.held, d)
			n.stats["stall_hold"]++
			continue
		}
		n.deliver(d)
		cnt++
	}
	return cnt
}

func (n *simNet) deliver(d *datagram) {
	s := n.socks[d.to]
	if s == nil {
		n.stats["no_route"]++
		return
	}
	select {
	case <-s.closed:
		n.stats["closed_drop"]++
		return
	default:
	}
	select {
	case s.in <- inPkt{d.data, d.from}:
		s.recv++
	default:
		n.stats["rcvbuf_overflow"]++
	}
}

func (n *simNet) unstall(a netip.AddrPort) {
	delete(n.stalled, a)
	held := n.held
	n.held = nil
	for _, d := range held {
		if d.to == a {
			n.deliver(d)
		} else {
			n.held = append(n.held, d)
		}
	}
}

func (n *simNet) partition(a, b netip.AddrPort, both bool) {
	n.blocked[[2]netip.AddrPort{a, b}] = true
	if both {
		n.blocked[[2]netip.AddrPort{b, a}] = true
	}
}

func (n *simNet) heal() { n.blocked = map[[2]netip.AddrPort]bool{} }

func (n *simNet) nextDelivery() (time.Duration, bool) {
	if n.pending.Len() == 0 {
		return 0, false
	}
	return n.pending[0].at, true
}

var errSimTimeout = errors.New("sim: step budget exceeded")

func (n *simNet) String() string {
	return fmt.Sprintf("net{socks=%d pending=%d}", len(n.socks), n.pending.Len())
}
