package sim

import (
	"crypto/sha256"
	"fmt"
	"math/big"
	"net"
	"time"

	"github.com/ethereum/go-ethereum/common/hexutil"
	"github.com/ethereum/go-ethereum/p2p/enode"
	"github.com/holiman/uint256"
	"github.com/zen-eth/shisui/portalwire"
	pingext "github.com/zen-eth/shisui/portalwire/ping_ext"
	"github.com/zen-eth/shisui/storage"
)

// C06 (network part) — the in-range test used to filter offers, to answer the store RPC and
// to pick gossip targets applies "big-endian XOR distance < radius".

func init() { engines["c06net"] = runC06Net }

func genC06Net(r *prng) *plan {
	p := &plan{Cfg: map[string]int64{}}
	p.Cfg["vv"] = int64(r.intn(3))
	n := 6 + r.intn(10)
	for i := 0; i < n; i++ {
		p.Ops = append(p.Ops, opSpec{K: "probe", N: []int64{int64(r.u64() >> 1), int64(r.intn(12)), int64(r.intn(4))}})
	}
	return p
}

func xorBE(a enode.ID, b []byte) *big.Int {
	var x [32]byte
	for i := range x {
		x[i] = a[i] ^ b[i]
	}
	return new(big.Int).SetBytes(x[:])
}

var maxU256 = new(big.Int).Sub(new(big.Int).Lsh(big.NewInt(1), 256), big.NewInt(1))

// radiusFor picks a radius relative to the distance d so that boundaries are hit.
func radiusFor(mode int64, d *big.Int) *big.Int {
	one := big.NewInt(1)
	var r *big.Int
	switch mode {
	case 0:
		r = new(big.Int).Set(d) // equal: not in range
	case 1:
		r = new(big.Int).Add(d, one) // just in range
	case 2:
		r = new(big.Int).Sub(d, one)
	case 3:
		r = new(big.Int).Set(maxU256)
	case 4:
		r = big.NewInt(0)
	case 5:
		r = big.NewInt(511) // below 2^9
	case 6:
		r = big.NewInt(int64(d.BitLen())) // the log2 distance itself
	case 7:
		r = big.NewInt(int64(d.BitLen()) + 1)
	case 8:
		r = new(big.Int).Lsh(one, 255)
	case 9:
		r = new(big.Int).Rsh(d, 1)
	case 10:
		r = new(big.Int).Lsh(d, 1)
	default:
		r = new(big.Int).Lsh(one, uint(d.BitLen()-1)) // same bit length as d, below or equal to d
	}
	if r.Sign() < 0 {
		r = big.NewInt(0)
	}
	if r.Cmp(maxU256) > 0 {
		r = new(big.Int).Set(maxU256)
	}
	return r
}

func runC06Net(seed uint64) {
	p := loadOrGenPlan("c06net", seed, genC06Net)
	w := newWorld(seed, "C06", "c06net")
	w.res.Class = "fault-free"
	vv := versionSets[p.cfg("vv")%3]
	deco := &decoStore{}
	V := w.newBase(nodeCfg{name: "V", port: 9001, key: detKey(seed, 1), versions: vv, maxUtp: 50, capacityMB: 100,
		wrapStore: func(s storage.ContentStorage) storage.ContentStorage { deco.inner = s; return deco }})
	vp := V.newPlainProto(portalwire.History)
	P := w.newPuppet(nodeCfg{name: "P", port: 9002, key: detKey(seed, 2), versions: vv, maxUtp: 50})
	// N: the neighbour whose reported radius drives gossip target selection
	N := w.newPuppet(nodeCfg{name: "N", port: 9003, key: detKey(seed, 3), versions: vv, maxUtp: 50})
	nRadius := new(uint256.Int).Set(storage.MaxDistance)
	N.handlers[string(portalwire.History)] = func(from *enode.Node, addr *net.UDPAddr, msg []byte) []byte {
		if len(msg) > 0 && msg[0] == portalwire.PING {
			rb, _ := nRadius.MarshalSSZ()
			pl := pingext.NewClientInfoAndCapabilitiesPayload(rb, []uint16{0, 2, 65535})
			b, _ := pl.MarshalSSZ()
			return encPong(1, 0, b)
		}
		if len(msg) > 0 && msg[0] == portalwire.OFFER {
			return nil
		}
		return nil
	}
	vp.p.AddEnr(N.self())
	w.runFor(50 * time.Millisecond)

	for i, op := range p.Ops {
		key := append([]byte{0x01}, newPrng(uint64(op.n(0))).bytes(32)...)
		cid := sha256.Sum256(key)
		site := op.n(2)
		switch site {
		case 0, 1, 2: // own radius: InRange, Store RPC, OFFER verdict
			d := xorBE(V.id(), cid[:])
			rad := radiusFor(op.n(1), d)
			want := d.Cmp(rad) < 0
			deco.radius, _ = uint256.FromBig(rad)
			var got bool
			var how string
			switch site {
			case 0:
				got = vp.p.InRange(cid[:])
				how = "InRange()"
			case 1:
				ok, err := vp.api.Store(hexutil.Encode(key), "0x010203")
				if err != nil {
					w.violate("C06", "store-rpc-error", "Store RPC failed: %v", err)
					continue
				}
				got = ok
				how = "Store RPC"
			case 2:
				var resp []byte
				okc, err := w.call("offer", 10*time.Second, func() error {
					var e error
					resp, e = P.talk(V.self(), portalwire.History, encOffer([][]byte{key}))
					return e
				})
				if !okc || err != nil || len(resp) < 4 || resp[0] != portalwire.ACCEPT {
					w.violate("C06", "offer-no-verdict", "raw OFFER got no ACCEPT reply (err=%v, %d bytes)", err, len(resp))
					continue
				}
				ver, _ := highestCommon(vv, vv, true)
				if ver == 0 {
					// container{connid[2], offset[4], bitlist}
					bl := resp[7:]
					got = len(bl) > 0 && bl[0]&1 == 1
				} else {
					codes := resp[7:]
					got = len(codes) == 1 && codes[0] == 0
				}
				how = fmt.Sprintf("OFFER verdict v%d", ver)
			}
			w.op("probe#%d %s dist=%x radius=%x -> %v (rule: %v)", i, how, d, rad, got, want)
			if got != want {
				w.violate("C06", "inrange-rule", "%s says in-range=%v for distance 0x%x and radius 0x%x; the rule distance < radius says %v", how, got, d, rad, want)
			}
			w.probe(fmt.Sprintf("site%d_%v", site, want))
			w.abstract("site%d mode%d %v", site, op.n(1), got)
		default: // gossip target selection with the neighbour's reported radius
			d := xorBE(N.id(), cid[:])
			rad := radiusFor(op.n(1), d)
			want := d.Cmp(rad) < 0
			nRadius, _ = uint256.FromBig(rad)
			okc, err := w.call("ping", 10*time.Second, func() error {
				_, e := vp.api.Ping(N.enr(), nil, nil)
				return e
			})
			if !okc || err != nil {
				w.violate("C06", "ping-failed", "ping to the neighbour failed in a fault-free run: %v", err)
				continue
			}
			rb, _ := vp.p.VerifRadiusOf(N.id())
			nodes, err := vp.p.GossipAndReturnPeers(nil, [][]byte{key}, [][]byte{{1, 2, 3}})
			got := false
			for _, n := range nodes {
				if n.ID() == N.id() {
					got = true
				}
			}
			w.op("probe#%d gossip dist=%x reported radius=%x (cached %x) -> selected=%v (rule: %v) err=%v", i, d, rad, rb, got, want, err)
			if got != want {
				w.violate("C06", "inrange-rule", "gossip target selection says in-range=%v for a neighbour at distance 0x%x that reported radius 0x%x; the rule distance < radius says %v", got, d, rad, want)
			}
			w.probe(fmt.Sprintf("site3_%v", want))
			w.abstract("gossip mode%d %v", op.n(1), got)
			w.runFor(20 * time.Second) // let the offer to N time out / finish
		}
	}
	w.res.Nontrivial = len(p.Ops) >= 2
	w.finish()
}
