package sim

import (
	"bytes"
	"crypto/sha256"
	"errors"
	"fmt"
	"github.com/ethereum/go-ethereum/crypto"
	"github.com/protolambda/ztyp/codec"
	"os"

	"github.com/ethereum/go-ethereum/common"
	"github.com/zen-eth/shisui/state"
	"github.com/zen-eth/shisui/storage"
	spebble "github.com/zen-eth/shisui/storage/pebble"
)

// C04 through the state network's storage adapter: state.Storage decodes an offered item, keeps the last
// proof node (or the code) and hands that to the content store. Several goroutines do this at once in a
// running node (validation workers, the store RPC), so the engine runs batches of concurrent puts and gets
// of honest items through the real adapter over the real, yield-instrumented content store under the seeded
// task scheduler, and requires every id to hold exactly the bytes derived from the item put under it.

func init() { engines["state-adapter-par"] = runStateAdapterPar }

func genStateAdapter(r *prng) *plan {
	p := &plan{Cfg: map[string]int64{}}
	p.Cfg["nacc"] = int64([]int{2, 5, 20, 60}[r.intn(4)])
	p.Cfg["nitems"] = int64(4 + r.intn(12))
	p.Cfg["memtable"] = int64([]int{64 << 10, 256 << 10, 4 << 20}[r.intn(3)])
	p.Cfg["cache"] = int64([]int{1 << 10, 64 << 10, 8 << 20}[r.intn(3)])
	p.Cfg["sched"] = int64(r.u64() >> 1)
	nb := 2 + r.intn(5)
	for b := 0; b < nb; b++ {
		n := 2 + r.intn(6)
		p.Ops = append(p.Ops, opSpec{K: "par", N: []int64{int64(n)}})
		for j := 0; j < n; j++ {
			k := "put"
			if r.chance(30) {
				k = "pget"
			}
			p.Ops = append(p.Ops, opSpec{K: k, N: []int64{int64(r.intn(64))}})
		}
	}
	return p
}

func runStateAdapterPar(seed uint64) {
	p := loadOrGenPlan("state-adapter-par", seed, genStateAdapter)
	w := newWorld(seed, "C04", "state-adapter-par")
	w.res.Class = "par"
	s := &storeSim{w: w, p: p, model: map[[32]byte][]byte{}, ever: map[[32]byte][][]byte{}, tasks: map[uint64]*ytask{}}
	r := newPrng(seed ^ 0xada9)
	copy(s.nodeID[:], r.bytes(32))
	spebble.VerifYield = s.yield
	spebble.VerifYieldLockHook = s.yieldLock
	s.disk = newSimDisk()
	if !s.open(true) {
		w.finish()
		return
	}
	ad := state.NewStateStorage(s.cs, s.db)

	// honest items of all three kinds from a synthetic state; what the adapter must store for each is
	// computed by the harness' own decoder (the C13 judge)
	w1 := buildState(r, int(p.cfg("nacc")), 18_000_000)
	w2 := buildState(r, 3, 18_000_001)
	headers := map[common.Hash]common.Hash{w1.hash: w1.hdr.Root, w2.hash: w2.hdr.Root}
	type item struct {
		key, val, want []byte
		id             [32]byte
	}
	var items []*item
	seen := map[string]bool{}
	for tries := 0; len(items) < int(p.cfg("nitems")) && tries < 400; tries++ {
		key, val, _ := c13Item(r, w1, w2, int64(r.intn(3)), 0)
		if key == nil || seen[string(key)] {
			continue
		}
		store, why := judgeState(headers, key, val)
		if why != "" && os.Getenv("VERIF_DBG13") != "" {
			k, c := &state.ContractStorageTrieNodeKey{}, &state.ContractStorageTrieNodeWithProof{}
			rd := func(b []byte) *codec.DecodingReader {
				return codec.NewDecodingReader(bytes.NewReader(b), uint64(len(b)))
			}
			e1, e2 := k.Deserialize(rd(key[1:])), c.Deserialize(rd(val))
			fmt.Fprintf(os.Stderr, "decode errs %v %v; account proof %d nodes, storage proof %d nodes, path %v\n", e1, e2, len(c.AccountProof), len(c.StorageProof), k.Path.Nibbles)
			for i, n := range c.StorageProof {
				fmt.Fprintf(os.Stderr, "  storage node %d: len %d hash %x\n", i, len(n), crypto.Keccak256(n)[:6])
			}
			{
				var rawp [][]byte
				for _, n := range c.AccountProof {
					rawp = append(rawp, []byte(n))
				}
				acc, err := accountFromProof(w1.hdr.Root[:], k.AddressHash[:], rawp)
				if err == nil {
					fmt.Fprintf(os.Stderr, "account from proof: root %x codehash %x nonce %d\n", acc.Root[:6], acc.CodeHash[:6], acc.Nonce)
				} else {
					fmt.Fprintf(os.Stderr, "account from proof: %v\n", err)
				}
				for _, a := range w1.accts {
					fmt.Fprintf(os.Stderr, "  acct %x root %x nonce %d hasStorage=%v\n", a.addrHash[:6], a.acct.Root[:6], a.acct.Nonce, a.storage != nil)
				}
			}
			for i, n := range c.AccountProof {
				fmt.Fprintf(os.Stderr, "  account node %d: len %d hash %x\n", i, len(n), crypto.Keccak256(n)[:6])
			}
			for _, a := range w1.accts {
				if a.storage == nil {
					continue
				}
				fmt.Fprintf(os.Stderr, "acct %x root=%x storage.root=%x keys=%d\n", a.addrHash[:4], a.acct.Root[:6], a.storage.root[:6], len(a.storage.keys))
				for _, sk := range a.storage.keys {
					sn, _ := a.storage.nodesOnPath(sk)
					if len(sn) > 0 {
						fmt.Fprintf(os.Stderr, "   key %x: %d nodes, first hash %x len %d\n", sk[:4], len(sn), crypto.Keccak256(sn[0])[:6], len(sn[0]))
					} else {
						fmt.Fprintf(os.Stderr, "   key %x: no nodes\n", sk[:4])
					}
				}
			}
		}
		if why != "" {
			fatal2(fmt.Sprintf("state-adapter oracle self-test: honest item judged invalid: %s (key %x, %d content bytes, %d accounts)", why, key, len(val), len(w1.accts)))
		}
		seen[string(key)] = true
		items = append(items, &item{key: key, val: val, want: append([]byte{4, 0, 0, 0}, store...), id: sha256.Sum256(key)})
	}
	if len(items) < 2 {
		w.finish()
		return
	}
	stored := map[*item]bool{}
	judge := func(it *item, got []byte, when string) {
		if bytes.Equal(got, it.want) {
			w.probe("adapter_value_exact")
			return
		}
		// C13 states the same from the state network's side: what is stored is that final node or that code
		for _, o := range items {
			if o != it && bytes.Equal(got, o.want) {
				w.violate("C04", "value-not-put", "%s: id of item %x.. holds the bytes derived from another item (%x..), which were never put under it", when, head(it.key, 6), head(o.key, 6))
				w.violate("C13", "stored-bytes", "%s: key %x.. holds the node/code of another valid item (%x..), not its own", when, head(it.key, 6), head(o.key, 6))
				return
			}
		}
		w.violate("C04", "value-not-put", "%s: id of item %x.. holds %d bytes that are not the node/code of the item put under it (%d bytes expected)", when, head(it.key, 6), len(got), len(it.want))
		w.violate("C13", "stored-bytes", "%s: key %x.. holds %d bytes that are not its final node / code (%d bytes expected)", when, head(it.key, 6), len(got), len(it.want))
	}
	ops := p.Ops
	for i := 0; i < len(ops); i++ {
		if ops[i].K != "par" {
			continue
		}
		n := int(ops[i].n(0))
		var batch []opSpec
		for j := i + 1; j < len(ops) && len(batch) < n && ops[j].K != "par"; j++ {
			batch = append(batch, ops[j])
		}
		i += len(batch)
		type res struct {
			it    *item
			isGet bool
			val   []byte
			err   error
		}
		var rs []*res
		var fns []func()
		for _, op := range batch {
			it := items[int(op.n(0))%len(items)]
			pr := &res{it: it, isGet: op.K == "pget"}
			rs = append(rs, pr)
			fns = append(fns, func() {
				if pr.isGet {
					pr.val, pr.err = ad.Get(it.key, it.id[:])
				} else {
					pr.err = ad.Put(it.key, it.id[:], it.val)
				}
			})
		}
		sched := newPrng(uint64(p.cfg("sched")) + uint64(i))
		trace, stuck := s.runTasks(sched, fns)
		if stuck {
			w.violate("C04", "stuck", "concurrent adapter calls did not finish")
			break
		}
		switches := 0
		for k := 1; k < len(trace); k++ {
			if trace[k] != trace[k-1] {
				switches++
			}
		}
		w.res.Probes["par_batches"]++
		w.res.Probes["par_task_switches"] += switches
		puts := 0
		for _, pr := range rs {
			switch {
			case pr.isGet && pr.err == nil:
				judge(pr.it, pr.val, fmt.Sprintf("get racing batch#%d", i))
				s.held = append(s.held, retained{op: i, id: pr.it.id, slice: pr.val, copy: append([]byte(nil), pr.val...)})
			case pr.isGet && errors.Is(pr.err, storage.ErrContentNotFound):
				if stored[pr.it] {
					w.violate("C04", "lost", "get racing batch#%d: item %x.. not found although it was stored and the store is far below capacity", i, head(pr.it.key, 6))
				}
			case pr.isGet:
				w.violate("C04", "get-error", "get racing batch#%d failed without any injected fault: %v", i, pr.err)
			case pr.err != nil:
				w.violate("C04", "put-error", "adapter put of an honest item failed in batch#%d: %v", i, pr.err)
			default:
				puts++
			}
		}
		for _, pr := range rs {
			if !pr.isGet && pr.err == nil {
				stored[pr.it] = true
			}
		}
		// quiescent: every stored item reads back as exactly its own node / code
		for _, it := range items {
			if !stored[it] {
				continue
			}
			got, err := ad.Get(it.key, it.id[:])
			if err != nil {
				w.violate("C04", "lost", "after batch#%d: item %x.. was accepted but get fails: %v", i, head(it.key, 6), err)
				continue
			}
			judge(it, got, fmt.Sprintf("after batch#%d", i))
		}
		s.opIdx = i
		s.checkHeld()
		w.op("batch#%d: %d calls (%d puts), %d switches, %d items stored", i, len(batch), puts, switches, len(stored))
		w.abstract("batch n=%d puts=%d sw=%d", len(batch), puts, switches/4)
	}
	w.res.Nontrivial = len(stored) >= 2
	w.finish()
}
