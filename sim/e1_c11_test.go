package sim

import (
	"crypto/ecdsa"
	"encoding/binary"
	"fmt"
	"net"
	"time"

	"github.com/ethereum/go-ethereum/p2p/enode"
	"github.com/ethereum/go-ethereum/rlp"
	"github.com/zen-eth/shisui/portalwire"
)

// C11 — FINDNODES replies and their acceptance obey distance, size and relay rules.

func init() { engines["c11"] = runC11 }

// address classes used by the harness (chosen away from every "special" range)
type ipClass int

const (
	ipLoop ipClass = iota
	ipLAN
	ipPub
)

func classOf(ip net.IP) ipClass {
	v4 := ip.To4()
	switch {
	case v4 == nil:
		return ipPub
	case v4[0] == 127:
		return ipLoop
	case v4[0] == 10, v4[0] == 192 && v4[1] == 168, v4[0] == 172 && v4[1] >= 16 && v4[1] < 32:
		return ipLAN
	}
	return ipPub
}

// relayOK is the harness' own relay rule: a loopback address may only be relayed to a loopback
// asker, a LAN address only to a LAN or loopback asker.
func relayOK(asker, addr net.IP) bool {
	a, x := classOf(asker), classOf(addr)
	switch x {
	case ipLoop:
		return a == ipLoop
	case ipLAN:
		return a == ipLoop || a == ipLAN
	}
	return true
}

func c11Addr(class ipClass, i int) net.IP {
	switch class {
	case ipLoop:
		return net.IP{127, 0, 0, byte(1 + i%200)}
	case ipLAN:
		return net.IP{10, byte(1 + i/250), byte(i % 250), 7}
	}
	// distinct /24s so that table IP limits never bite
	return net.IP{byte(20 + i/60000), byte(1 + (i/250)%250), byte(i % 250), 9}
}

func genC11(r *prng) *plan {
	p := &plan{Cfg: map[string]int64{}}
	p.Cfg["vclass"] = int64(r.intn(3))
	p.Cfg["fill"] = int64([]int{0, 5, 20, 48}[r.intn(4)])
	p.Cfg["maxenr"] = int64(r.intn(2))
	p.Cfg["nunverified"] = int64(r.intn(4))
	p.Cfg["enrlie"] = int64(r.intn(3) / 2)
	p.Cfg["lowbucket"] = int64(r.intn(3) / 2)
	n := 3 + r.intn(8)
	for i := 0; i < n; i++ {
		if r.chance(15) {
			// the node learns a newer record of one of its liveness-checked entries: same address, another
			// port (nobody answers there); until that endpoint has passed a check it must not be relayed
			p.Ops = append(p.Ops, opSpec{K: "update", N: []int64{int64(r.intn(48)), int64(1 + r.intn(500)), int64(r.u64() >> 1)}})
			// ... asked for at once by a loopback asker (to whom every address may be relayed), at exactly
			// that entry's distance
			p.Ops = append(p.Ops, opSpec{K: "ask", N: []int64{0, 99, int64(r.u64() >> 1)}})
			continue
		}
		if r.chance(60) {
			// raw FINDNODES from an asker of some address class with some distance list
			p.Ops = append(p.Ops, opSpec{K: "ask", N: []int64{int64(r.intn(3)), int64(r.intn(11)), int64(r.u64() >> 1)}})
		} else {
			// V asks a byzantine responder
			p.Ops = append(p.Ops, opSpec{K: "respond", N: []int64{int64(r.intn(3)), int64(r.u64() >> 1), int64(3 + r.intn(12))}})
		}
	}
	return p
}

// c11LastMovedDist: log-distance of the entry the last "update" operation moved (distance mode 99).
var c11LastMovedDist uint16 = 256

func c11Distances(mode int64, rs *prng) []uint16 {
	switch mode {
	case 99:
		return []uint16{c11LastMovedDist}
	case 0:
		return nil
	case 1:
		return []uint16{0}
	case 2:
		return []uint16{256, 255, 254}
	case 3:
		return []uint16{256, 256, 256, 255, 255}
	case 4:
		return []uint16{257, 300, 65535, 256}
	case 5:
		out := make([]uint16, 0, 257)
		for d := 0; d <= 256; d++ {
			out = append(out, uint16(d))
		}
		return out[:256] // the wire limit is 256 entries: 0..255
	case 6:
		out := make([]uint16, 0, 256)
		for d := 256; d > 0; d-- {
			out = append(out, uint16(d))
		}
		return out
	case 7:
		return []uint16{0, 256, 0, 255}
	case 8:
		// repeats that are not next to each other, with invalid values in between
		return [][]uint16{{255, 254, 255}, {254, 300, 254}, {256, 255, 256, 255, 256}, {255, 0, 255, 0}, {253, 254, 255, 256, 253, 254, 255, 256}}[rs.intn(5)]
	}
	n := 1 + rs.intn(6)
	var out []uint16
	for i := 0; i < n; i++ {
		out = append(out, uint16(240+rs.intn(20)))
	}
	if rs.chance(40) {
		// say some of it again, in another order
		for _, i := range permN(rs, len(out))[:1+rs.intn(len(out))] {
			out = append(out, out[i])
		}
	}
	return out
}

func runC11(seed uint64) {
	p := loadOrGenPlan("c11", seed, genC11)
	w := newWorld(seed, "C11", "c11")
	w.res.Class = "fault-free"
	vclass := ipClass(p.cfg("vclass") % 3)
	vip := c11Addr(vclass, 0)
	vkey := detKey(seed, 1)
	var lowKeys []*ecdsa.PrivateKey
	if p.cfg("lowbucket") == 1 {
		// the one node for which keys at log-distance 240 (the catch-all bucket 0) were searched at set-up time
		if victim, byDist := c20BigKeys(); victim != nil {
			vkey, lowKeys = victim, byDist[240]
		}
	}
	V := w.newBase(nodeCfg{name: "V", ip: vip.String(), port: 9001, key: vkey, versions: []uint8{0, 1}, maxUtp: 10, capacityMB: 10})
	vp := V.newPlainProto(portalwire.History)
	w.net.onSend = func(d *datagram) {
		if len(d.data) > 1280 && d.from == V.sock.addr {
			w.violate("C11", "oversize-datagram", "datagram of %d bytes from the node exceeds one discv5 packet", len(d.data))
		}
	}
	// verified fillers of all three address classes
	var fillers []c11filler
	movedTo := map[enode.ID]uint64{} // entries whose newer record (this sequence number) names an endpoint nobody answers on
	fill := int(p.cfg("fill"))
	if fill > 0 {
		want := map[int]int{256: 16, 255: 16, 254: 16}
		ks := keysAtDistance(seed, V.id(), want, 5000)
		i := 0
		for _, d := range []int{256, 255, 254} {
			for _, k := range ks[d] {
				if i >= fill {
					break
				}
				ip := c11Addr(ipClass(i%3), 10+i)
				var n *enode.Node
				if p.cfg("maxenr") == 1 {
					n = maxPadENR(k, ip, 2000+i)
				} else {
					n = makeENR(k, ip, 2000+i, 1, 0)
				}
				vp.p.AddEnr(n)
				fillers = append(fillers, c11filler{k, n})
				i++
			}
		}
	}
	for i, k := range lowKeys {
		if i >= 3 {
			break
		}
		n := makeENR(k, c11Addr(ipClass(i%3), 90+i), 2900+i, 1, 0)
		vp.p.AddEnr(n)
		fillers = append(fillers, c11filler{k, n})
	}
	// askers: one puppet per address class
	askers := map[ipClass]*puppet{}
	for c := ipLoop; c <= ipPub; c++ {
		acfg := nodeCfg{name: fmt.Sprintf("A%d", c), ip: c11Addr(c, 150+int(c)).String(), port: 9100 + int(c), key: detKey(seed, 10+int(c)), versions: []uint8{0, 1}, maxUtp: 10}
		if p.cfg("enrlie") == 1 {
			// the asker's record names an address of another class than the one its packets come from: what may be
			// relayed to it is decided by where it really is
			acfg.enrIP = c11Addr(ipClass((int(c)+1+int(seed%2))%3), 160+int(c)).String()
		}
		askers[c] = w.newPuppet(acfg)
	}
	// unverified entries: puppets that contacted V once and never answer its pings
	for i := 0; i < int(p.cfg("nunverified")); i++ {
		U := w.newPuppet(nodeCfg{name: fmt.Sprintf("U%d", i), ip: c11Addr(ipClass(i%3), 170+i).String(), port: 9200 + i, key: detKey(seed, 30+i), versions: []uint8{0, 1}, maxUtp: 10})
		w.call("contact", 3*time.Second, func() error {
			_, e := U.talk(V.self(), portalwire.History, encFindNodes([]uint16{256}))
			return e
		})
	}
	w.runFor(20 * time.Millisecond)

	for opi, op := range p.Ops {
		rs := newPrng(uint64(op.n(2)) + 17)
		switch op.K {
		case "ask":
			A := askers[ipClass(op.n(0)%3)]
			dists := c11Distances(op.n(1), rs)
			type entB struct {
				bucket int
				live   bool
			}
			tabBefore := map[enode.ID]entB{}
			for bi, b := range vp.p.VerifTable().Nodes() {
				for _, bn := range b {
					tabBefore[bn.Node.ID()] = entB{bi, bn.Live}
				}
			}
			var resp []byte
			okc, err := w.call("findnodes", 5*time.Second, func() error {
				var e error
				resp, e = A.talk(V.self(), portalwire.History, encFindNodes(dists))
				return e
			})
			if !okc || err != nil {
				w.violate("C11", "no-reply", "FINDNODES with %d distances from %s got no reply: %v", len(dists), A.cfg.ip, err)
				continue
			}
			if len(resp) < 6 || resp[0] != portalwire.NODES {
				w.violate("C11", "malformed-reply", "reply is not a NODES message (%d bytes)", len(resp))
				continue
			}
			if len(resp)+103 > 1280 {
				w.violate("C11", "oversize-reply", "NODES payload of %d bytes cannot fit one discv5 packet", len(resp))
			}
			if resp[1] != 1 || binary.LittleEndian.Uint32(resp[2:6]) != 5 {
				w.violate("C11", "malformed-reply", "NODES header: total=%d offset=%d", resp[1], binary.LittleEndian.Uint32(resp[2:6]))
				continue
			}
			lists, derr := decByteLists(resp[6:])
			if derr != nil {
				w.violate("C11", "malformed-reply", "ENR list: %v", derr)
				continue
			}
			if len(lists) > 32 {
				w.violate("C11", "too-many-records", "%d records in one NODES reply, at most 32 allowed", len(lists))
			}
			// snapshot of the table: id -> (bucket index, verified)
			type ent struct {
				bucket int
				live   bool
			}
			// the table changes while a request is under way (fruitless queries of a lookup that is still
			// running remove entries, replacements move up): membership is judged against the union of the
			// snapshot taken before the request and the one taken after the reply
			tab := map[enode.ID]ent{}
			for id, e := range tabBefore {
				tab[id] = ent{e.bucket, e.live}
			}
			for bi, b := range vp.p.VerifTable().Nodes() {
				for _, bn := range b {
					if old, ok := tab[bn.Node.ID()]; ok && old.live {
						continue
					}
					tab[bn.Node.ID()] = ent{bi, bn.Live}
				}
			}
			reqBuckets := map[int]bool{}
			zero := false
			for _, d := range dists {
				switch {
				case d == 0:
					zero = true
				case d > 256:
				case d <= 240:
					reqBuckets[0] = true
				default:
					reqBuckets[int(d)-240] = true
				}
			}
			askerIP := net.ParseIP(A.cfg.ip)
			sentTimes := map[enode.ID]int{}
			distinctLow := 0
			{
				seenD := map[uint16]bool{}
				for _, d := range dists {
					if d >= 1 && d <= 240 && !seenD[d] {
						seenD[d] = true
						distinctLow++
					}
				}
			}
			for i, l := range lists {
				n, err := decodeENR(l)
				if err != nil {
					w.violate("C11", "invalid-record-sent", "record #%d in the reply is not a valid signed ENR: %v", i, err)
					continue
				}
				sentTimes[n.ID()]++
				// a record may appear once per distinct requested distance its bucket covers (bucket 0 covers
				// all distances up to 240 and is served once for each of them); more often than that means a
				// repeated distance was served again
				allowed := 1
				if n.ID() != V.id() {
					if e, in := tab[n.ID()]; in && e.bucket == 0 {
						allowed = distinctLow
					}
				}
				if allowed > 0 && sentTimes[n.ID()] == allowed+1 {
					w.violate("C11", "record-repeated", "record #%d (%s) appears %d times in the reply to distances %v, its bucket covers %d distinct requested distances: a repeated distance was served again", i, n.ID().TerminalString(), sentTimes[n.ID()], shortU16(dists), allowed)
				}
				if !relayOK(askerIP, n.IP()) {
					w.violate("C11", "unrelayable-record-sent", "record #%d with address %s sent to an asker at %s", i, n.IP(), askerIP)
				}
				if n.ID() == V.id() {
					if !zero {
						w.violate("C11", "self-without-distance-0", "the local record was sent although distance 0 was not requested")
					}
					continue
				}
				if ms, moved := movedTo[n.ID()]; moved && n.Seq() >= ms {
					w.violate("C11", "unverified-record-sent", "record #%d (%s, seq %d, port %d) names an endpoint the node only learnt from a third party and that never passed a liveness check (nobody answers there)", i, n.ID().TerminalString(), n.Seq(), n.UDP())
					continue
				}
				e, in := tab[n.ID()]
				switch {
				case !in:
					w.violate("C11", "not-from-table", "record #%d (%s) is not a routing table entry", i, n.ID().TerminalString())
				case !e.live:
					w.violate("C11", "unverified-record-sent", "record #%d (%s) is a table entry that never passed a liveness check", i, n.ID().TerminalString())
				case !reqBuckets[e.bucket]:
					w.violate("C11", "wrong-bucket", "record #%d sits in bucket %d which covers none of the requested distances %v", i, e.bucket, shortU16(dists))
				}
			}
			if zero && len(dists) == 1 && relayOK(askerIP, vip) && len(lists) != 1 {
				w.violate("C11", "distance-0", "distance 0 alone must yield exactly the local record, got %d records", len(lists))
			}
			w.op("ask#%d from %s dists=%v -> %d records (%d bytes)", opi, A.cfg.ip, shortU16(dists), len(lists), len(resp))
			w.abstract("ask c%d m%d n=%d", op.n(0)%3, op.n(1), len(lists))
			w.probe(fmt.Sprintf("ask_mode%d", op.n(1)))
			if len(lists) > 0 {
				w.probe("nonempty_reply")
			}
			if len(resp) > 1100 {
				w.probe("reply_near_packet_limit")
			}
		case "respond":
			c11Respond(w, seed, opi, op, V, vp, rs)
		case "update":
			if len(fillers) == 0 {
				continue
			}
			f := fillers[int(op.n(0))%len(fillers)]
			seq := f.n.Seq() + 1 + movedTo[f.n.ID()]
			newRec := makeENR(f.k, f.n.IP(), f.n.UDP()+int(op.n(1)), seq, 0)
			raw, _ := rlp.EncodeToBytes(newRec.Record())
			R := w.newPuppet(nodeCfg{name: fmt.Sprintf("M%d", opi), ip: c11Addr(ipLoop, 120+opi).String(), port: 9400 + opi, key: detKey(seed, 300+opi), versions: []uint8{0, 1}, maxUtp: 10})
			R.handlers[string(portalwire.History)] = func(from *enode.Node, addr *net.UDPAddr, msg []byte) []byte {
				if len(msg) > 0 && msg[0] == portalwire.FINDNODES {
					return append([]byte{portalwire.NODES, 1, 5, 0, 0, 0}, sszLists([][]byte{raw})...)
				}
				return nil
			}
			// records enter the table from lookups: the responder is a table entry, the node looks the
			// entry's own id up, the responder's answer carries the newer record
			vp.p.AddEnr(R.self())
			w.call("v-lookup", 60*time.Second, func() error {
				_, e := vp.api.RecursiveFindNodes(f.n.ID().String())
				return e
			})
			w.runFor(20 * time.Millisecond)
			c11LastMovedDist = uint16(enode.LogDist(V.id(), f.n.ID()))
			got := 0
			for _, b := range vp.p.VerifTable().Nodes() {
				for _, bn := range b {
					if bn.Node.ID() == f.n.ID() && bn.Node.Seq() >= seq {
						got = 1
					}
				}
			}
			if got == 1 {
				movedTo[f.n.ID()] = seq
				w.probe("entry_moved_to_unchecked_port")
			}
			w.op("update#%d: a lookup brings the node a newer record (seq %d) of entry %s: same address, port %d -> %d; table updated=%d", opi, seq, f.n.ID().TerminalString(), f.n.UDP(), newRec.UDP(), got)
			w.abstract("update acc=%d", got)
		}
	}
	w.res.Nontrivial = true
	w.finish()
}

func shortU16(d []uint16) []uint16 {
	if len(d) > 8 {
		return append(append([]uint16{}, d[:6]...), d[len(d)-2:]...)
	}
	return d
}

// c11Respond: V asks a byzantine responder; what V returns must satisfy the acceptance rules.
func c11Respond(w *world, seed uint64, opi int, op opSpec, V *baseNode, vp *proto, rs *prng) {
	rclass := ipClass(op.n(0) % 3)
	rip := c11Addr(rclass, 190+opi)
	R := w.newPuppet(nodeCfg{name: fmt.Sprintf("R%d", opi), ip: rip.String(), port: 9300 + opi, key: detKey(seed, 100+opi), versions: []uint8{0, 1}, maxUtp: 10})
	dists := []uint{256, 255, 254}
	switch rs.intn(10) {
	case 0, 1, 2:
		dists = []uint{0}
	case 3:
		dists = []uint{} // nothing requested: nothing may be accepted
	case 4:
		dists = []uint{255}
	case 5:
		dists = []uint{300, 256} // an invalid distance next to a valid one
	}
	nrec := int(op.n(2))
	type rec struct {
		raw    []byte
		id     enode.ID
		kind   string
		expect bool
	}
	var recs []rec
	// keys at the requested distances from the responder, and some elsewhere
	ks := keysAtDistance(seed+uint64(opi), R.id(), map[int]int{256: 6, 255: 4, 254: 2, 253: 3}, 9000)
	var pool []struct {
		d int
		i int
	}
	for _, d := range []int{256, 255, 254, 253} {
		for i := range ks[d] {
			pool = append(pool, struct{ d, i int }{d, i})
		}
	}
	seen := map[enode.ID]bool{}
	for i := 0; i < nrec && len(pool) > 0; i++ {
		pk := pool[rs.intn(len(pool))]
		key := ks[pk.d][pk.i]
		id := enode.PubkeyToIDV4(&key.PublicKey)
		kind := []string{"good", "good", "good", "low-port", "bad-sig", "garbage", "unrelayable", "good"}[rs.intn(8)]
		class := ipClass(rs.intn(3))
		ip := c11Addr(class, 200+i)
		port := 3000 + i
		if kind == "low-port" {
			port = []int{1024, 1024, 1023, 1, 1 + rs.intn(1024)}[rs.intn(5)] // the limit itself counts as low
		} else if rs.chance(15) {
			port = 1025 // the first port that is allowed
		}
		if kind == "unrelayable" {
			// pick an address class the responder may not relay, if there is one
			switch rclass {
			case ipPub:
				ip = c11Addr(ipClass(rs.intn(2)), 200+i)
			case ipLAN:
				ip = c11Addr(ipLoop, 200+i)
			default:
				kind = "good"
			}
		}
		n := makeENR(key, ip, port, 1, 0)
		raw, _ := rlp.EncodeToBytes(n.Record())
		switch kind {
		case "bad-sig":
			raw = append([]byte{}, raw...)
			raw[10] ^= 0x40 // inside the 64-byte signature
		case "garbage":
			raw = rs.bytes(20 + rs.intn(60))
		}
		ok := kind == "good"
		if ok {
			atReq := false
			for _, d := range dists {
				if uint(pk.d) == d {
					atReq = true
				}
			}
			if !atReq || !relayOK(rip, ip) {
				ok = false
				if !atReq {
					kind = "wrong-distance"
				} else {
					kind = "unrelayable"
				}
			}
		}
		if ok && seen[id] {
			ok = false
			kind = "repeat"
		}
		if ok {
			seen[id] = true
		}
		recs = append(recs, rec{raw: raw, id: id, kind: kind, expect: ok})
	}
	// response within one packet: truncate the list if needed
	size := 0
	var enrs [][]byte
	cut := len(recs)
	for i, r := range recs {
		if size+len(r.raw)+4 > 1100 {
			cut = i
			break
		}
		size += len(r.raw) + 4
		enrs = append(enrs, r.raw)
	}
	recs = recs[:cut]
	R.handlers[string(portalwire.History)] = func(from *enode.Node, addr *net.UDPAddr, msg []byte) []byte {
		if len(msg) > 0 && msg[0] == portalwire.FINDNODES {
			out := []byte{portalwire.NODES, 1, 5, 0, 0, 0}
			off := 4 * len(enrs)
			var offs, data []byte
			for _, e := range enrs {
				var o [4]byte
				binary.LittleEndian.PutUint32(o[:], uint32(off))
				offs = append(offs, o[:]...)
				data = append(data, e...)
				off += len(e)
			}
			return append(append(out, offs...), data...)
		}
		return nil
	}
	var got []string
	okc, err := w.call("v-findnodes", 5*time.Second, func() error {
		var e error
		got, e = vp.api.FindNodes(R.enr(), dists)
		return e
	})
	if !okc {
		w.violate("C11", "call-hung", "FindNodes did not return")
		return
	}
	accepted := map[enode.ID]int{}
	for _, s := range got {
		n, perr := enode.Parse(enode.ValidSchemes, s)
		if perr != nil {
			w.violate("C11", "accepted-invalid", "FindNodes returned a record that does not parse: %v", perr)
			continue
		}
		accepted[n.ID()]++
		if n.UDP() <= 1024 {
			w.violate("C11", "accepted-low-port", "accepted a record with UDP port %d", n.UDP())
		}
		if !relayOK(rip, n.IP()) {
			w.violate("C11", "accepted-unrelayable", "accepted a record with address %s relayed by a responder at %s", n.IP(), rip)
		}
		d := enode.LogDist(R.id(), n.ID())
		at := false
		for _, q := range dists {
			if uint(d) == q {
				at = true
			}
		}
		if !at {
			w.violate("C11", "accepted-wrong-distance", "accepted a record at log-distance %d from the responder, requested %v", d, dists)
		}
		if accepted[n.ID()] > 1 {
			w.violate("C11", "accepted-repeat", "the same record was accepted twice")
		}
	}
	kinds := map[string]int{}
	missing := 0
	for _, r := range recs {
		kinds[r.kind]++
		if !r.expect && accepted[r.id] > 0 && (r.kind == "bad-sig" || r.kind == "garbage") {
			// the id could also have been accepted through a good copy; only flag if no good copy exists
			good := false
			for _, q := range recs {
				if q.id == r.id && q.expect {
					good = true
				}
			}
			if !good {
				w.violate("C11", "accepted-invalid", "a %s record was accepted", r.kind)
			}
		}
		if r.expect && accepted[r.id] == 0 {
			missing++
		}
	}
	if missing > 0 {
		w.probe("valid_record_not_returned")
	}
	for k, v := range kinds {
		w.res.Probes["resp_"+k] += v
	}
	w.op("respond#%d responder %s dists=%v sent %d records %v -> accepted %d err=%v", opi, rip, dists, len(recs), kinds, len(got), err)
	w.abstract("respond c%d sent=%d acc=%d", rclass, len(recs), len(got))
}

type c11filler struct {
	k *ecdsa.PrivateKey
	n *enode.Node
}
