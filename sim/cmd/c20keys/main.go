// c20keys searches, once at set-up time, secp256k1 keys whose node ids fall into each of the 17 routing-table
// buckets (log-distances 240..256) of one fixed victim id, 16 per bucket: the 272-node tables of C20's
// quantifier. A key at log-distance d costs 2^(257-d) trials, far too many per run for the low buckets,
// cheap once (about 3 million trials, spread over all cores). The search is deterministic (counter-derived
// keys, fixed order of acceptance), so every machine computes the same file.
//
//	c20keys <out.json>
package main

import (
	"crypto/ecdsa"
	"crypto/sha256"
	"encoding/binary"
	"encoding/hex"
	"encoding/json"
	"fmt"
	"os"
	"runtime"
	"sort"
	"sync"

	"github.com/ethereum/go-ethereum/crypto"
	"github.com/ethereum/go-ethereum/p2p/enode"
)

func keyAt(tag string, i uint64) *ecdsa.PrivateKey {
	var b [16]byte
	copy(b[:8], tag)
	binary.BigEndian.PutUint64(b[8:], i)
	h := sha256.Sum256(b[:])
	k, err := crypto.ToECDSA(h[:])
	if err != nil {
		return nil
	}
	return k
}

type hit struct {
	i uint64
	d int
}

func main() {
	if len(os.Args) != 2 {
		fmt.Fprintln(os.Stderr, "usage: c20keys out.json")
		os.Exit(2)
	}
	victim := keyAt("c20vict", 1)
	vid := enode.PubkeyToIDV4(&victim.PublicKey)
	const chunk = 1 << 16
	workers := runtime.NumCPU()
	need := map[int]int{}
	for d := 240; d <= 256; d++ {
		need[d] = 16
	}
	found := map[int][]uint64{}
	for base := uint64(0); ; base += uint64(workers) * chunk {
		var mu sync.Mutex
		var hits []hit
		var wg sync.WaitGroup
		for wk := 0; wk < workers; wk++ {
			wg.Add(1)
			go func(from uint64) {
				defer wg.Done()
				var local []hit
				for i := from; i < from+chunk; i++ {
					k := keyAt("c20node", i)
					if k == nil {
						continue
					}
					if d := enode.LogDist(vid, enode.PubkeyToIDV4(&k.PublicKey)); d >= 240 {
						local = append(local, hit{i, d})
					}
				}
				mu.Lock()
				hits = append(hits, local...)
				mu.Unlock()
			}(base + uint64(wk)*chunk)
		}
		wg.Wait()
		// accept in counter order: the result does not depend on the number of workers
		sort.Slice(hits, func(a, b int) bool { return hits[a].i < hits[b].i })
		for _, h := range hits {
			if len(found[h.d]) < need[h.d] {
				found[h.d] = append(found[h.d], h.i)
			}
		}
		done := true
		for d, n := range need {
			if len(found[d]) < n {
				done = false
			}
		}
		if done {
			break
		}
		if base > 1<<26 {
			fmt.Fprintln(os.Stderr, "c20keys: search space exhausted")
			os.Exit(2)
		}
	}
	out := struct {
		Victim string              `json:"victim"`
		Keys   map[string][]string `json:"keys"`
	}{Victim: hex.EncodeToString(crypto.FromECDSA(victim)), Keys: map[string][]string{}}
	for d, is := range found {
		for _, i := range is {
			out.Keys[fmt.Sprint(d)] = append(out.Keys[fmt.Sprint(d)], hex.EncodeToString(crypto.FromECDSA(keyAt("c20node", i))))
		}
	}
	b, _ := json.MarshalIndent(out, "", " ")
	if err := os.WriteFile(os.Args[1], b, 0o644); err != nil {
		fmt.Fprintln(os.Stderr, "c20keys:", err)
		os.Exit(2)
	}
}
