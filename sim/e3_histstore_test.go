package sim

import (
	"bytes"
	"crypto/sha256"
	"errors"

	"github.com/cockroachdb/pebble/vfs"
	"github.com/zen-eth/shisui/history"
	"github.com/zen-eth/shisui/storage"
	spebble "github.com/zen-eth/shisui/storage/pebble"
)

// C04 through the history network's hybrid store: history.Storage routes every call by the key's selector
// (ephemeral offers to the ephemeral store, everything else to the content store). Put / get / overwrite /
// close-and-reopen sequences with keys of every selector except the ephemeral one (whose store has semantics
// of its own: it keeps a window of recent headers), far below the capacity, under the plain C04 oracle: an
// accepted put is returned intact, nothing else is ever returned.

func init() { engines["history-store"] = runHistoryStore }

func genHistoryStore(r *prng) *plan {
	p := &plan{Cfg: map[string]int64{}}
	p.Cfg["nkeys"] = int64(4 + r.intn(12))
	n := 10 + r.intn(40)
	for i := 0; i < n; i++ {
		switch r.intn(10) {
		case 0:
			p.Ops = append(p.Ops, opSpec{K: "reopen"})
		case 1, 2, 3, 4:
			p.Ops = append(p.Ops, opSpec{K: "get", N: []int64{int64(r.intn(16))}})
		default:
			p.Ops = append(p.Ops, opSpec{K: "put", N: []int64{int64(r.intn(16)), int64([]int{0, 1, 33, 600, 5000, 40000}[r.intn(6)]), int64(r.u64() >> 1)}})
		}
	}
	return p
}

func runHistoryStore(seed uint64) {
	p := loadOrGenPlan("history-store", seed, genHistoryStore)
	w := newWorld(seed, "C04", "history-store")
	w.res.Class = "sequential"
	r := newPrng(seed ^ 0x4157)
	var nodeID [32]byte
	copy(nodeID[:], r.bytes(32))
	// keys: every selector the history network knows (and some it does not), except ephemeral offers
	selectors := []byte{0x00, 0x01, 0x02, 0x03, 0x04, 0x06, 0x07, 0x20, 0xff}
	type hk struct {
		key []byte
		id  [32]byte
	}
	var keys []hk
	for i := 0; i < int(p.cfg("nkeys")); i++ {
		sel := selectors[i%len(selectors)]
		n := 32
		if sel == 0x03 || (sel == 0x04 && r.chance(50)) {
			n = 8
		}
		k := append([]byte{sel}, r.bytes(n)...)
		keys = append(keys, hk{key: k, id: sha256.Sum256(k)})
	}
	fs := vfs.NewMem()
	var hs storage.ContentStorage
	open := func() {
		sc := storage.PortalStorageConfig{StorageCapacityMB: 100, NodeId: nodeID, NetworkName: "history"}
		eternal, err := spebble.NewStorage(sc, openPebble(fs, "/history"))
		if err != nil {
			fatal2("history-store: " + err.Error())
		}
		eph := history.NewEphemeralStorage(sc, openPebble(fs, "/history_ephemeral"))
		hs, err = history.NewHistoryStorage(eternal, eph)
		if err != nil {
			fatal2("history-store: " + err.Error())
		}
	}
	open()
	model := map[int][]byte{}
	ever := map[int][][]byte{}
	for opi, op := range p.Ops {
		switch op.K {
		case "reopen":
			if err := hs.Close(); err != nil {
				w.op("close: %v", err)
			}
			open()
			w.op("reopen")
			w.abstract("reopen")
			w.probe("reopen")
		case "put":
			i := int(op.n(0)) % len(keys)
			val := valueFor(op.n(2), op.n(1))
			ever[i] = append(ever[i], val)
			err := hs.Put(keys[i].key, keys[i].id[:], val)
			w.op("put#%d selector %#02x (%d-byte key) size=%d -> %v", opi, keys[i].key[0], len(keys[i].key), len(val), err)
			w.abstract("put s%d %v", i%len(selectors), err == nil)
			if err != nil {
				w.violate("C04", "put-error", "put#%d through the history store failed far below the capacity: %v", opi, err)
				continue
			}
			model[i] = val
			w.probe("put_ok")
		case "get":
			i := int(op.n(0)) % len(keys)
			got, err := hs.Get(keys[i].key, keys[i].id[:])
			want, has := model[i]
			w.op("get#%d selector %#02x -> %d bytes err=%v", opi, keys[i].key[0], len(got), err)
			w.abstract("get s%d %v", i%len(selectors), err == nil)
			switch {
			case err == nil && !has:
				w.violate("C04", "value-not-put", "get#%d (selector %#02x) returned %d bytes for a key nothing was put under", opi, keys[i].key[0], len(got))
			case err == nil && !bytes.Equal(got, want):
				if everContains(ever[i], got) {
					w.violate("C04", "stale-value", "get#%d (selector %#02x) returned an older value than the last accepted put", opi, keys[i].key[0])
				} else {
					w.violate("C04", "value-not-put", "get#%d (selector %#02x) returned bytes never put under that key", opi, keys[i].key[0])
				}
			case err == nil:
				w.probe("get_hit")
			case errors.Is(err, storage.ErrContentNotFound) || has:
				if has {
					w.violate("C04", "lost", "get#%d: key with selector %#02x was accepted by the history store (%d bytes), nothing pruned it, but get says: %v", opi, keys[i].key[0], len(want), err)
				} else {
					w.probe("get_miss")
				}
			default:
				w.probe("get_miss_other_error")
			}
		}
	}
	w.res.Nontrivial = w.res.Probes["put_ok"] >= 2
	w.finish()
}
