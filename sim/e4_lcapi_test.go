package sim

import (
	"errors"
	"fmt"
	"testing/synctest"
	"time"

	"github.com/ethereum/go-ethereum/log"
	blsu "github.com/protolambda/bls12-381-util"
	"github.com/protolambda/zrnt/eth2/beacon/altair"
	zc "github.com/protolambda/zrnt/eth2/beacon/common"
	"github.com/protolambda/zrnt/eth2/beacon/deneb"
	"github.com/protolambda/zrnt/eth2/beacon/electra"
	"github.com/protolambda/zrnt/eth2/configs"
	"github.com/protolambda/ztyp/tree"
	"github.com/zen-eth/shisui/beacon"
)

// E4 lc-api / C12 — the real Start() / Sync() / Advance() loop of the light client against a faulty and
// partly adversarial data source.
//
// The engine "lc" hands single updates to VerifyGenericUpdate / ApplyGenericUpdate. What decides whether a
// running node only advances on verified updates is, however, the code around those two calls: which
// verification error is tolerated, what survives a failed Sync() when Start() tries again, which answer of
// the API is applied at all. Here the harness is the ConsensusAPI: it owns a synthetic honest chain
// (headers by slot whose state trees commit to the finalized header of their epoch, to the committee of
// their period and to the next one, 512-member committees over a few BLS keys) and an attacker with keys of
// his own, and it answers every call of the client according to the plan: honestly, with an error, late
// (virtual seconds to more than a day: the clock crosses period boundaries while the client waits), with
// a stale or wrong-period honest update, with an honest update of too little participation, with an honest
// update bent in one field, with the wrong type or number of objects, or with a forgery of the attacker
// (signed with his keys, or not at all; attested in the previous period so that it is "not relevant";
// naming his committee as the next one). The client is started with Start(); its own timers (10 s between
// Sync attempts, one Advance round per slot) run on the virtual clock.
//
// Oracle (state invariants, evaluated at every API call of the client and whenever the run is quiescent):
// the attacker has none of the honest keys, so whatever he sends can never be verified, and what the
// honest chain sends is what it is. Therefore
//   - the finalized header is the checkpoint header or the finalized header of an honest update with at
//     least 342 participants that the API has actually served;
//   - the optimistic header is a header of the honest chain, at or ahead of the finalized one;
//   - the current committee is the honest committee of the finalized header's period, the next committee
//     is absent or the honest committee of the period after it, and both (beyond the checkpoint's) were
//     named by a served honest full update with at least 342 participants;
//   - between two bootstraps neither header moves backwards.
// None of this depends on timing, on which attempt succeeds, or on whether the client makes progress.

func init() { engines["lc-api"] = runLCAPI }

const lcapiP0 = 1100 // first period of the synthetic chain's interesting range (deneb era)

func genLCAPI(r *prng) *plan {
	p := &plan{Cfg: map[string]int64{}}
	p.Cfg["nkeys"] = int64(5 + r.intn(4))
	// where in its period the checkpoint lies, and how old it is
	switch r.intn(4) {
	case 0:
		p.Cfg["bootoff"] = int64(32 * (3 + r.intn(8))) // early
	case 1:
		p.Cfg["bootoff"] = int64(32 * (20 + r.intn(200)))
	default:
		p.Cfg["bootoff"] = int64(8192 - 32*(1+r.intn(6))) // the last epochs of the period
	}
	switch r.intn(6) {
	case 0, 1:
		p.Cfg["age"] = int64(70 + r.intn(300)) // same period, or just across the boundary
	case 2, 3:
		p.Cfg["age"] = int64(8192 + r.intn(8192))
	case 4:
		p.Cfg["age"] = int64(2*8192 + r.intn(8192))
	default:
		p.Cfg["age"] = int64(3*8192 + r.intn(8192))
	}
	if r.chance(4) {
		p.Cfg["age"] = int64(13*8192 + r.intn(8192)) // older than the maximum checkpoint age
	}
	p.Cfg["portal"] = int64(r.intn(4)) // 0: the API is not "portal" (one GetUpdates call for all periods)
	p.Cfg["strict"] = int64(r.intn(2))
	p.Cfg["steps"] = int64(20 + r.intn(60))
	p.Cfg["earlybest"] = int64(r.intn(8)) // 0: the best update of a period is attested in its first epochs
	hostile := r.chance(60)
	n := 6 + r.intn(30)
	for i := 0; i < n; i++ {
		mode := int64(0)
		if hostile && r.chance(45) || r.chance(12) {
			mode = int64(1 + r.intn(7))
		}
		delay := int64(0)
		if r.chance(15) {
			delay = int64(1 + r.intn(4))
		}
		p.Ops = append(p.Ops, opSpec{K: "ans", N: []int64{mode, delay, int64(r.intn(16)), int64(r.u64() >> 1)}})
	}
	if r.chance(18) {
		// the story of a fresh store without a next committee: a young checkpoint, an honest first
		// synchronisation and Advance round, and a bad answer exactly where the client asks for the
		// committee update of its period
		p.Cfg["age"] = int64(70 + r.intn(300))
		p.Cfg["bootoff"] = int64(32 * (20 + r.intn(200)))
		p.Cfg["portal"] = 1
		var ops []opSpec
		for i := 0; i < 5; i++ {
			ops = append(ops, opSpec{K: "ans", N: []int64{0, 0, 0, int64(r.u64() >> 1)}})
		}
		sub := int64(r.intn(16))
		if r.chance(50) {
			sub = 0
		}
		ops = append(ops, opSpec{K: "ans", N: []int64{int64([]int{5, 5, 5, 3, 4, 6, 7}[r.intn(7)]), 0, sub, int64(r.u64() >> 1)}})
		p.Ops = append(ops, p.Ops...)
	} else if r.chance(30) {
		// the story of a long first synchronisation that fails late and is tried again: honest answers
		// through bootstrap and all period updates, then one fault at the finality or optimistic update
		nper := int(p.Cfg["age"]+p.Cfg["bootoff"]) / 8192
		if p.Cfg["portal"] == 0 {
			nper = 1
		}
		var ops []opSpec
		for i := 0; i < 1+nper+r.intn(2); i++ {
			ops = append(ops, opSpec{K: "ans", N: []int64{0, 0, 0, int64(r.u64() >> 1)}})
		}
		ops = append(ops, opSpec{K: "ans", N: []int64{int64(1 + r.intn(7)), int64(r.intn(3)), int64(r.intn(16)), int64(r.u64() >> 1)}})
		p.Ops = append(ops, p.Ops...)
	}
	return p
}

// lcChain is the honest chain: one header per slot on demand.
type lcChain struct {
	lw      *lcWorld
	seed    uint64
	base    uint64
	hdr     map[uint64]*zc.BeaconBlockHeader
	br      map[uint64]*lcBranches
	genuine map[zc.Root]uint64
}

type lcBranches struct {
	finSlot uint64
	fin     altair.FinalizedRootProofBranch
	nsc     altair.SyncCommitteeProofBranch
	cur     [5]zc.Root
}

func (ch *lcChain) finOf(s uint64) uint64 {
	e := s / 32 * 32
	if e < ch.base+64 {
		return ch.base
	}
	return e - 64
}

func (ch *lcChain) header(s uint64) *zc.BeaconBlockHeader {
	for {
		// iterative descent: build the deepest missing ancestor first
		if h, ok := ch.hdr[s]; ok {
			return h
		}
		t := s
		for t > ch.base {
			f := ch.finOf(t)
			if _, ok := ch.hdr[f]; ok {
				break
			}
			t = f
		}
		ch.build(t)
	}
}

func (ch *lcChain) build(s uint64) {
	r := newPrng(ch.seed ^ (s * 0x9e3779b97f4a7c15))
	rnd := func() (x zc.Root) { copy(x[:], r.bytes(32)); return }
	h := &zc.BeaconBlockHeader{Slot: zc.Slot(s), ProposerIndex: zc.ValidatorIndex(r.intn(100000)), ParentRoot: rnd(), BodyRoot: rnd()}
	if s <= ch.base {
		h.StateRoot = rnd()
	} else {
		f := ch.hdr[ch.finOf(s)]
		finRoot := f.HashTreeRoot(tree.GetHashFn())
		cur := ch.lw.committee(s / lcSlotsPerPeriod).root
		next := ch.lw.committee(s/lcSlotsPerPeriod + 1).root
		n104, n53, n12, n7, n2 := rnd(), rnd(), rnd(), rnd(), rnd()
		n52 := h2(n104, finRoot)
		n26 := h2(n52, n53)
		n27 := h2(cur, next) // 54: current sync committee, 55: next sync committee
		n13 := h2(n26, n27)
		n6 := h2(n12, n13)
		n3 := h2(n6, n7)
		h.StateRoot = h2(n2, n3)
		ch.br[s] = &lcBranches{finSlot: uint64(f.Slot),
			fin: altair.FinalizedRootProofBranch{n104, n53, n27, n12, n7, n2},
			nsc: altair.SyncCommitteeProofBranch{cur, n26, n12, n7, n2},
			cur: [5]zc.Root{next, n26, n12, n7, n2}}
	}
	ch.hdr[s] = h
	ch.genuine[h.HashTreeRoot(tree.GetHashFn())] = s
}

type lcapiEnv struct {
	w        *world
	p        *plan
	lw       *lcWorld
	att      *lcWorld // the attacker's keys and committees
	ch       *lcChain
	lc       *beacon.ConsensusLightClient
	cfg      *beacon.Config
	calls    int
	bootSlot uint64
	bootRoot zc.Root
	// what the API has served
	strongFin  map[zc.Root]bool // finalized headers of served honest updates with >= 342 participants
	strongNext map[uint64]bool  // periods whose committee was named by a served honest full update with >= 342
	bootstraps int
	// monotonicity baselines since the last bootstrap
	seenBoot       int
	lastFin, lastO uint64
	commRoot       map[*zc.SyncCommittee]zc.Root
	bestOff        map[uint64]uint64
	reported       map[string]bool
	blockedUntil   time.Time // the client waits in a delayed API call until then
}

func (e *lcapiEnv) nowSlot() uint64 {
	return uint64(e.cfg.Spec.TimeToSlot(zc.Timestamp(time.Now().Unix()), zc.Timestamp(e.cfg.Chain.GenesisTime)))
}

func (e *lcapiEnv) rootOf(c *zc.SyncCommittee) zc.Root {
	if r, ok := e.commRoot[c]; ok {
		return r
	}
	r := c.HashTreeRoot(e.lw.spec, tree.GetHashFn())
	e.commRoot[c] = r
	return r
}

// check evaluates the state invariants on the client's store.
func (e *lcapiEnv) check(when string) {
	st := &e.lc.Store
	if st.FinalizedHeader == nil {
		return // not bootstrapped yet
	}
	w := e.w
	fin, opt := uint64(st.FinalizedHeader.Slot), uint64(0)
	finRoot := st.FinalizedHeader.HashTreeRoot(tree.GetHashFn())
	if finRoot != e.bootRoot && !e.strongFin[finRoot] {
		if _, ok := e.ch.genuine[finRoot]; ok {
			e.viol("finalized-unverified", "%s: the finalized header (slot %d) is a header of the honest chain that no served update with at least 342 participants finalized", when, fin)
		} else {
			e.viol("finalized-forged", "%s: the finalized header (slot %d) is not a header of the honest chain", when, fin)
		}
	}
	if st.OptimisticHeader == nil {
		e.viol("optimistic-behind-finalized", "%s: no optimistic header although a finalized header is stored", when)
	} else {
		opt = uint64(st.OptimisticHeader.Slot)
		if _, ok := e.ch.genuine[st.OptimisticHeader.HashTreeRoot(tree.GetHashFn())]; !ok {
			e.viol("optimistic-forged", "%s: the optimistic header (slot %d) is not a header of the honest chain", when, opt)
		}
		if opt < fin {
			e.viol("optimistic-behind-finalized", "%s: optimistic header at slot %d is behind the finalized header at %d", when, opt, fin)
		}
	}
	per := fin / lcSlotsPerPeriod
	bootPer := e.bootSlot / lcSlotsPerPeriod
	name := func(r zc.Root) string {
		for q, c := range e.lw.comms {
			if c.root == r {
				return fmt.Sprintf("the honest committee of period %d", q)
			}
		}
		for q, c := range e.att.comms {
			if c.root == r {
				return fmt.Sprintf("the attacker's committee #%d", q)
			}
		}
		return "a committee nobody built"
	}
	if st.CurrentSyncCommittee == nil {
		e.viol("committee-of-wrong-period", "%s: no current committee", when)
	} else if r := e.rootOf(st.CurrentSyncCommittee); r != e.lw.committee(per).root {
		e.viol("committee-of-wrong-period", "%s: finalized header in period %d, but the current committee is %s", when, per, name(r))
	} else if per != bootPer && !e.strongNext[per] {
		e.viol("changed-without-supermajority", "%s: the current committee is that of period %d, which no served update with at least 342 participants named", when, per)
	}
	if st.NextSyncCommittee != nil {
		if r := e.rootOf(st.NextSyncCommittee); r != e.lw.committee(per+1).root {
			e.viol("committee-of-wrong-period", "%s: finalized header in period %d, but the next committee is %s", when, per, name(r))
		} else if !e.strongNext[per+1] {
			e.viol("changed-without-supermajority", "%s: the next committee (period %d) was not named by any served update with at least 342 participants", when, per+1)
		}
	}
	if e.seenBoot != e.bootstraps {
		e.seenBoot, e.lastFin, e.lastO = e.bootstraps, fin, opt
	}
	if fin < e.lastFin {
		e.viol("finalized-moved-back", "%s: finalized header moved from slot %d back to %d without a new bootstrap", when, e.lastFin, fin)
	}
	if opt < e.lastO {
		e.viol("optimistic-moved-back", "%s: optimistic header moved from slot %d back to %d without a new bootstrap", when, e.lastO, opt)
	}
	if fin > e.lastFin {
		w.probe("finalized_advanced")
	}
	e.lastFin, e.lastO = fin, opt
}

// viol reports each clause once per run (the state invariants are evaluated again and again).
func (e *lcapiEnv) viol(clause, format string, a ...any) {
	if e.reported[clause] {
		return
	}
	e.reported[clause] = true
	e.w.violate("C12", clause, format, a...)
}

type lcBehaviour struct {
	mode, delay, sub int64
	rs               *prng
}

func (e *lcapiEnv) next(call string) lcBehaviour {
	i := e.calls
	e.calls++
	b := lcBehaviour{rs: newPrng(uint64(i)*77 + 5)}
	if i < len(e.p.Ops) {
		op := e.p.Ops[i]
		b.mode, b.delay, b.sub = op.n(0), op.n(1), op.n(2)
		b.rs = newPrng(uint64(op.n(3)))
	}
	e.check("at " + call)
	if b.delay > 0 {
		d := []time.Duration{0, time.Duration(1+b.rs.intn(30)) * time.Second, time.Duration(5+b.rs.intn(55)) * time.Minute,
			time.Duration(6+b.rs.intn(22)) * time.Hour, time.Duration(27+b.rs.intn(8)) * time.Hour}[b.delay%5]
		e.w.fault("api_delay")
		if d > time.Hour {
			e.w.fault("api_stall_hours")
		}
		e.blockedUntil = time.Now().Add(d)
		time.Sleep(d)
	}
	return b
}

var errLcapiInjected = errors.New("content lookup failed (injected)")

// bitsN: a random bitmap with n participants.
func bitsN(rs *prng, n int) []bool {
	bits := make([]bool, 512)
	for _, i := range permN(rs, 512)[:n] {
		bits[i] = true
	}
	return bits
}

func (e *lcapiEnv) strongN(rs *prng) int { return 342 + rs.intn(171) }

func (e *lcapiEnv) weakN(rs *prng) int {
	return []int{0, 1, 170, 256, 341, 100 + rs.intn(241)}[rs.intn(6)]
}

// honest pieces of an update attested at slot a and signed in slot s by the committee of s's period.
type lcParts struct {
	att, fin *zc.BeaconBlockHeader
	br       *lcBranches
	next     *zc.SyncCommittee
	agg      altair.SyncAggregate
	sig      uint64
	n        int
}

func (e *lcapiEnv) honest(a, s uint64, n int, rs *prng) *lcParts {
	att := e.ch.header(a)
	br := e.ch.br[a]
	pp := &lcParts{att: att, br: br, fin: e.ch.header(br.finSlot), next: e.lw.committee(a/lcSlotsPerPeriod + 1).c, sig: s, n: n}
	bits := bitsN(rs, n)
	sg := e.lw.sign(e.lw.committee(s/lcSlotsPerPeriod), bits, att, e.cfg.Spec.ForkVersion(zc.Slot(s)), e.cfg.Chain.GenesisRoot)
	pp.agg = altair.SyncAggregate{SyncCommitteeBits: bitsOf(bits), SyncCommitteeSignature: sg}
	return pp
}

// served records what an honest, untouched update entitles the client to.
func (e *lcapiEnv) served(pp *lcParts, full bool, finality bool) {
	if pp.n*3 < 512*2 {
		return
	}
	if finality {
		e.strongFin[pp.fin.HashTreeRoot(tree.GetHashFn())] = true
	}
	if full {
		e.strongNext[uint64(pp.att.Slot)/lcSlotsPerPeriod+1] = true
	}
}

func (e *lcapiEnv) fullObj(pp *lcParts, rs *prng) zc.SpecObj {
	if rs.chance(30) {
		return &deneb.LightClientUpdate{AttestedHeader: deneb.LightClientHeader{Beacon: *pp.att}, NextSyncCommittee: *pp.next, NextSyncCommitteeBranch: pp.br.nsc,
			FinalizedHeader: deneb.LightClientHeader{Beacon: *pp.fin}, FinalityBranch: pp.br.fin, SyncAggregate: pp.agg, SignatureSlot: zc.Slot(pp.sig)}
	}
	return &altair.LightClientUpdate{AttestedHeader: altair.LightClientHeader{Beacon: *pp.att}, NextSyncCommittee: *pp.next, NextSyncCommitteeBranch: pp.br.nsc,
		FinalizedHeader: altair.LightClientHeader{Beacon: *pp.fin}, FinalityBranch: pp.br.fin, SyncAggregate: pp.agg, SignatureSlot: zc.Slot(pp.sig)}
}

func (e *lcapiEnv) finObj(pp *lcParts, rs *prng) zc.SpecObj {
	if rs.chance(30) {
		return &deneb.LightClientFinalityUpdate{AttestedHeader: deneb.LightClientHeader{Beacon: *pp.att}, FinalizedHeader: deneb.LightClientHeader{Beacon: *pp.fin},
			FinalityBranch: pp.br.fin, SyncAggregate: pp.agg, SignatureSlot: zc.Slot(pp.sig)}
	}
	return &altair.LightClientFinalityUpdate{AttestedHeader: altair.LightClientHeader{Beacon: *pp.att}, FinalizedHeader: *pp.fin,
		FinalityBranch: pp.br.fin, SyncAggregate: pp.agg, SignatureSlot: zc.Slot(pp.sig)}
}

func (e *lcapiEnv) optObj(pp *lcParts, rs *prng) zc.SpecObj {
	if rs.chance(30) {
		return &deneb.LightClientOptimisticUpdate{AttestedHeader: deneb.LightClientHeader{Beacon: *pp.att}, SyncAggregate: pp.agg, SignatureSlot: zc.Slot(pp.sig)}
	}
	return &altair.LightClientOptimisticUpdate{AttestedHeader: altair.LightClientHeader{Beacon: *pp.att}, SyncAggregate: pp.agg, SignatureSlot: zc.Slot(pp.sig)}
}

// bestOf: the attested slot of the honest "best update" of a period as of now.
func (e *lcapiEnv) bestOf(period uint64) (uint64, bool) {
	start := period * lcSlotsPerPeriod
	cur := e.nowSlot()
	if cur < start+3 {
		return 0, false
	}
	off, ok := e.bestOff[period]
	if !ok {
		r := newPrng(e.ch.seed ^ period*31)
		off = 200 + uint64(r.intn(7900))
		if e.p.cfg("earlybest") == 0 && r.chance(50) {
			off = 1 + uint64(r.intn(90)) // finalized header still in the previous period
		}
		e.bestOff[period] = off
	}
	a := start + off
	if a+2 > cur {
		a = cur - 2
	}
	if a <= e.ch.base {
		return 0, false
	}
	return a, true
}

// forged builds what the attacker can build: any headers and branches he likes over a state tree of
// his own, his committee as the next one, a bitmap of his choice, and a signature of his keys (or none).
func (e *lcapiEnv) forged(b lcBehaviour) *lcParts {
	rs := b.rs
	st := &e.lc.Store
	fin, cur := e.bootSlot, e.nowSlot()
	if st.FinalizedHeader != nil {
		fin = uint64(st.FinalizedHeader.Slot)
	}
	if cur <= fin {
		cur = fin + 1
	}
	per := fin / lcSlotsPerPeriod
	start := per * lcSlotsPerPeriod
	var a, s uint64
	switch b.sub % 5 {
	case 0:
		// attested and finalized in the previous period, signed in the store's period
		a = start - 1 - uint64(rs.intn(2000))
		s = start + uint64(rs.intn(int(maxU(1, minU(cur-start, fin-start+1)))))
	case 1:
		// newer than everything the store has, in the store's period
		a = fin + 1 + uint64(rs.intn(int(maxU(1, cur-fin))))
		s = a + 1
	case 2:
		// attested exactly at the finalized slot
		a, s = fin, fin+1
	case 3:
		// in the next period
		a = start + lcSlotsPerPeriod + uint64(rs.intn(100))
		s = a + 1
	default:
		a = fin + 1
		s = a + 1 + uint64(rs.intn(3))
	}
	if s > cur && rs.chance(80) {
		s = cur
		if a >= s {
			a = s - 1
		}
	}
	ac := e.att.committee(uint64(rs.intn(3)))
	f := a - uint64(rs.intn(96))
	if b.sub%5 == 0 && rs.chance(50) {
		f = a
	}
	finHdr := e.att.header(f, zc.Root{7})
	if rs.chance(25) {
		finHdr = e.ch.header(f) // a header of the honest chain under a state root of his own
	}
	stateRoot, finBr, nscBr := e.att.stateTree(finHdr.HashTreeRoot(tree.GetHashFn()), ac.root)
	attHdr := e.att.header(a, stateRoot)
	n := e.strongN(rs)
	if rs.chance(15) {
		n = 512
	}
	bits := bitsN(rs, n)
	var sg zc.BLSSignature
	switch rs.intn(4) {
	case 0:
		copy(sg[:], rs.bytes(96))
	case 1:
		sg[0] = 0xc0 // the point at infinity
	default:
		sg = e.att.sign(e.att.committee(uint64(rs.intn(3))), bits, attHdr, e.cfg.Spec.ForkVersion(zc.Slot(s)), e.cfg.Chain.GenesisRoot)
	}
	e.w.fault("api_forged")
	return &lcParts{att: attHdr, fin: finHdr, next: ac.c, sig: s, n: n,
		br:  &lcBranches{fin: finBr, nsc: nscBr},
		agg: altair.SyncAggregate{SyncCommitteeBits: bitsOf(bits), SyncCommitteeSignature: sg}}
}

// bend changes one field of an honest update.
func (e *lcapiEnv) bend(pp *lcParts, b lcBehaviour) *lcParts {
	rs := b.rs
	q := *pp
	br := *pp.br
	q.br = &br
	att := *pp.att
	fin := *pp.fin
	q.att, q.fin = &att, &fin
	q.agg.SyncCommitteeBits = append(altair.SyncCommitteeBits{}, pp.agg.SyncCommitteeBits...)
	switch b.sub % 8 {
	case 0:
		q.br.fin[rs.intn(6)][rs.intn(32)] ^= 0x20
	case 1:
		q.br.nsc[rs.intn(5)][rs.intn(32)] ^= 0x08
	case 2:
		q.att.ProposerIndex++
	case 3:
		q.fin.ProposerIndex += 7
	case 4:
		cc := *pp.next
		cc.Pubkeys = append([]zc.BLSPubkey{}, pp.next.Pubkeys...)
		cc.Pubkeys[rs.intn(512)] = e.att.keys[0].pk
		q.next = &cc
	case 5:
		q.agg.SyncCommitteeSignature[50] ^= 0x04
	case 6:
		q.agg.SyncCommitteeBits[rs.intn(64)] ^= 1 << uint(rs.intn(8))
	default:
		q.next = e.att.committee(0).c
	}
	e.w.fault("api_bent")
	return &q
}

func minU(a, b uint64) uint64 {
	if a < b {
		return a
	}
	return b
}

// headAtt: the attested slot an honest source would serve now.
func (e *lcapiEnv) headAtt(rs *prng) uint64 {
	cur := e.nowSlot()
	a := cur - 1 - uint64(rs.intn(3))
	if a <= e.ch.base {
		a = e.ch.base + 1
	}
	return a
}

// --- beacon.ConsensusAPI ---

type lcMockAPI struct{ e *lcapiEnv }

func (m lcMockAPI) ChainID() uint64 { return 1 }
func (m lcMockAPI) Name() string {
	if m.e.p.cfg("portal") == 0 {
		return "rpc"
	}
	return "portal"
}

func (m lcMockAPI) GetBootstrap(root zc.Root) (zc.SpecObj, error) {
	e := m.e
	b := e.next("GetBootstrap")
	h := e.ch.header(e.bootSlot)
	br := e.ch.br[e.bootSlot]
	bs := &electra.LightClientBootstrap{Header: deneb.LightClientHeader{Beacon: *h}, CurrentSyncCommittee: *e.lw.committee(e.bootSlot / lcSlotsPerPeriod).c}
	copy(bs.CurrentSyncCommitteeBranch[:5], br.cur[:])
	desc := "honest"
	switch b.mode {
	case 1:
		e.w.fault("api_error")
		e.w.op("call#%d GetBootstrap -> error", e.calls-1)
		return nil, errLcapiInjected
	case 2, 3:
		desc = "attacker's committee under the checkpoint header"
		bs.CurrentSyncCommittee = *e.att.committee(0).c
		e.w.fault("api_forged")
	case 4:
		desc = "another header of the honest chain, with its own committee proof"
		o := e.bootSlot - 32*uint64(1+b.rs.intn(4))
		bs.Header.Beacon = *e.ch.header(o)
		copy(bs.CurrentSyncCommitteeBranch[:5], e.ch.br[o].cur[:])
		bs.CurrentSyncCommittee = *e.lw.committee(o / lcSlotsPerPeriod).c
		e.w.fault("api_stale")
	case 5:
		desc = "attacker's header and committee with a proof that holds"
		ac := e.att.committee(0)
		n54sib := ac.root
		// a state tree of his own in which his committee sits at the current-committee position
		r := e.att.rs
		var sib [5]zc.Root
		for i := range sib {
			copy(sib[i][:], r.bytes(32))
		}
		v := n54sib
		for i, ix := 0, uint64(22); i < 5; i, ix = i+1, ix>>1 {
			if ix&1 == 1 {
				v = h2(sib[i], v)
			} else {
				v = h2(v, sib[i])
			}
		}
		bs.Header.Beacon = *e.att.header(e.bootSlot, v)
		bs.CurrentSyncCommittee = *ac.c
		copy(bs.CurrentSyncCommitteeBranch[:5], sib[:])
		e.w.fault("api_forged")
	case 6:
		desc = "committee branch node altered"
		bs.CurrentSyncCommitteeBranch[b.rs.intn(5)][b.rs.intn(32)] ^= 0x10
		e.w.fault("api_bent")
	case 7:
		desc = "wrong type"
		e.w.fault("api_wrong_type")
		e.w.op("call#%d GetBootstrap -> a deneb bootstrap object", e.calls-1)
		return &deneb.LightClientBootstrap{Header: deneb.LightClientHeader{Beacon: *h}, CurrentSyncCommittee: bs.CurrentSyncCommittee}, nil
	}
	e.w.op("call#%d GetBootstrap -> %s", e.calls-1, desc)
	e.w.abstract("boot m%d", b.mode)
	if desc == "honest" {
		e.bootstraps++
	}
	return bs, nil
}

func (m lcMockAPI) GetUpdates(first, count uint64) ([]zc.SpecObj, error) {
	e := m.e
	b := e.next("GetUpdates")
	e.w.abstract("upd m%d s%d", b.mode, b.sub%8)
	one := func(period uint64, n int) (zc.SpecObj, *lcParts, bool) {
		a, ok := e.bestOf(period)
		if !ok {
			return nil, nil, false
		}
		pp := e.honest(a, a+1, n, b.rs)
		return e.fullObj(pp, b.rs), pp, true
	}
	switch b.mode {
	case 1:
		e.w.fault("api_error")
		e.w.op("call#%d GetUpdates(%d,%d) -> error", e.calls-1, first, count)
		return nil, errLcapiInjected
	case 3:
		// honest, but too few participants
		obj, pp, ok := one(first, e.weakN(b.rs))
		if !ok {
			return nil, nil
		}
		e.w.fault("api_weak")
		e.w.op("call#%d GetUpdates(%d,%d) -> honest update attested %d with %d participants", e.calls-1, first, count, pp.att.Slot, pp.n)
		return []zc.SpecObj{obj}, nil
	case 4:
		// an honest update of another period
		other := first + uint64([]int64{-1, 1, 2, -2}[b.sub%4])
		obj, pp, ok := one(other, e.strongN(b.rs))
		if !ok {
			return nil, nil
		}
		e.served(pp, true, true)
		e.w.fault("api_stale")
		e.w.op("call#%d GetUpdates(%d,%d) -> honest update of period %d (attested %d)", e.calls-1, first, count, other, pp.att.Slot)
		return []zc.SpecObj{obj}, nil
	case 5:
		pp := e.forged(b)
		e.w.op("call#%d GetUpdates(%d,%d) -> forged: attested %d finalized %d signature slot %d, %d bits", e.calls-1, first, count, pp.att.Slot, pp.fin.Slot, pp.sig, pp.n)
		return []zc.SpecObj{e.fullObj(pp, b.rs)}, nil
	case 6:
		_, pp, ok := one(first, e.strongN(b.rs))
		if !ok {
			return nil, nil
		}
		q := e.bend(pp, b)
		e.w.op("call#%d GetUpdates(%d,%d) -> honest update attested %d bent (variant %d)", e.calls-1, first, count, pp.att.Slot, b.sub%8)
		return []zc.SpecObj{e.fullObj(q, b.rs)}, nil
	case 7:
		e.w.fault("api_wrong_type")
		switch b.sub % 4 {
		case 0:
			e.w.op("call#%d GetUpdates(%d,%d) -> empty list", e.calls-1, first, count)
			return nil, nil
		case 1:
			pp := e.honest(e.headAtt(b.rs), e.nowSlot(), e.strongN(b.rs), b.rs)
			e.w.op("call#%d GetUpdates(%d,%d) -> a finality update object", e.calls-1, first, count)
			return []zc.SpecObj{e.finObj(pp, b.rs)}, nil
		case 2:
			// the same honest update twice
			obj, pp, ok := one(first, e.strongN(b.rs))
			if !ok {
				return nil, nil
			}
			e.served(pp, true, true)
			e.w.op("call#%d GetUpdates(%d,%d) -> the honest update (attested %d) twice", e.calls-1, first, count, pp.att.Slot)
			return []zc.SpecObj{obj, obj}, nil
		default:
			// a forgery after the honest one
			obj, pp, ok := one(first, e.strongN(b.rs))
			if !ok {
				return nil, nil
			}
			e.served(pp, true, true)
			f := e.forged(b)
			e.w.op("call#%d GetUpdates(%d,%d) -> the honest update (attested %d) followed by a forgery (attested %d)", e.calls-1, first, count, pp.att.Slot, f.att.Slot)
			return []zc.SpecObj{obj, e.fullObj(f, b.rs)}, nil
		}
	}
	// honest: one update per period asked for, as far as the chain has got
	var out []zc.SpecObj
	desc := ""
	for per := first; per < first+count && len(out) < 16; per++ {
		obj, pp, ok := one(per, e.strongN(b.rs))
		if !ok {
			break
		}
		e.served(pp, true, true)
		out = append(out, obj)
		desc += fmt.Sprintf(" p%d@%d/fin%d", per, pp.att.Slot, pp.fin.Slot)
	}
	e.w.op("call#%d GetUpdates(%d,%d) -> honest:%s", e.calls-1, first, count, desc)
	return out, nil
}

// tip answers GetFinalityUpdate / GetOptimisticUpdate.
func (e *lcapiEnv) tip(call string, finality bool) (zc.SpecObj, error) {
	b := e.next(call)
	e.w.abstract("%s m%d s%d", call[3:6], b.mode, b.sub%8)
	mk := func(pp *lcParts) zc.SpecObj {
		if finality {
			return e.finObj(pp, b.rs)
		}
		return e.optObj(pp, b.rs)
	}
	cur := e.nowSlot()
	switch b.mode {
	case 1:
		e.w.fault("api_error")
		e.w.op("call#%d %s -> error", e.calls-1, call)
		return nil, errLcapiInjected
	case 3:
		pp := e.honest(e.headAtt(b.rs), cur, e.weakN(b.rs), b.rs)
		e.w.fault("api_weak")
		e.w.op("call#%d %s -> honest, attested %d, %d participants", e.calls-1, call, pp.att.Slot, pp.n)
		return mk(pp), nil
	case 4:
		// honest but old: up to two periods back
		back := []uint64{1 + uint64(b.rs.intn(200)), 200 + uint64(b.rs.intn(8000)), 8192 + uint64(b.rs.intn(8192))}[b.sub%3]
		a := e.ch.base + 1
		if cur > back+e.ch.base+2 {
			a = cur - back
		}
		pp := e.honest(a, a+1, e.strongN(b.rs), b.rs)
		e.served(pp, false, finality)
		e.w.fault("api_stale")
		e.w.op("call#%d %s -> honest but old: attested %d (current slot %d)", e.calls-1, call, a, cur)
		return mk(pp), nil
	case 5:
		pp := e.forged(b)
		e.w.op("call#%d %s -> forged: attested %d finalized %d signature slot %d, %d bits", e.calls-1, call, pp.att.Slot, pp.fin.Slot, pp.sig, pp.n)
		return mk(pp), nil
	case 6:
		pp := e.honest(e.headAtt(b.rs), cur, e.strongN(b.rs), b.rs)
		// only the fields this kind of object carries
		if finality {
			b.sub = []int64{0, 2, 3, 5, 6}[b.sub%5]
		} else {
			b.sub = []int64{2, 5, 6}[b.sub%3]
		}
		q := e.bend(pp, b)
		e.w.op("call#%d %s -> honest, attested %d, bent (variant %d)", e.calls-1, call, pp.att.Slot, b.sub%8)
		return mk(q), nil
	case 7:
		e.w.fault("api_wrong_type")
		pp := e.honest(e.headAtt(b.rs), cur, e.strongN(b.rs), b.rs)
		e.w.op("call#%d %s -> an object of the other kind", e.calls-1, call)
		if b.sub%2 == 0 {
			// a full update where a finality / optimistic update is expected
			return e.fullObj(pp, b.rs), nil
		}
		if finality {
			return e.optObj(pp, b.rs), nil
		}
		return e.finObj(pp, b.rs), nil
	}
	pp := e.honest(e.headAtt(b.rs), cur, e.strongN(b.rs), b.rs)
	e.served(pp, false, finality)
	e.w.op("call#%d %s -> honest: attested %d finalized %d, %d participants", e.calls-1, call, pp.att.Slot, pp.fin.Slot, pp.n)
	return mk(pp), nil
}

func (m lcMockAPI) GetFinalityUpdate() (zc.SpecObj, error) {
	return m.e.tip("GetFinalityUpdate", true)
}
func (m lcMockAPI) GetOptimisticUpdate() (zc.SpecObj, error) {
	return m.e.tip("GetOptimisticUpdate", false)
}

func lcNewKeys(rs *prng, n int) []lcKey {
	var out []lcKey
	for i := 0; i < n; i++ {
		var skb [32]byte
		copy(skb[1:], rs.bytes(31))
		sk := new(blsu.SecretKey)
		if err := sk.Deserialize(&skb); err != nil {
			fatal2("bls sk: " + err.Error())
		}
		pk, _ := blsu.SkToPk(sk)
		out = append(out, lcKey{sk: sk, pk: pk.Serialize()})
	}
	return out
}

func runLCAPI(seed uint64) {
	p := loadOrGenPlan("lc-api", seed, genLCAPI)
	w := newWorld(seed, "C12", "lc-api")
	w.res.Class = "api"
	rs := newPrng(seed ^ 0xa91c12)
	lw := &lcWorld{comms: map[uint64]*lcCommittee{}, rs: rs, spec: configs.Mainnet, sigMemo: map[string]*blsu.Signature{}}
	lw.keys = lcNewKeys(rs, int(p.cfg("nkeys")))
	att := &lcWorld{comms: map[uint64]*lcCommittee{}, rs: newPrng(seed ^ 0xbad), spec: configs.Mainnet, sigMemo: map[string]*blsu.Signature{}}
	att.keys = lcNewKeys(att.rs, 2)
	cfg := beacon.DefaultConfig()
	cfg.StrictCheckpointAge = p.cfg("strict") == 1
	bootSlot := uint64(lcapiP0*lcSlotsPerPeriod) + uint64(p.cfg("bootoff"))
	curSlot := bootSlot + uint64(p.cfg("age"))
	cfg.Chain.GenesisTime = uint64(time.Now().Unix()) - curSlot*12
	e := &lcapiEnv{w: w, p: p, lw: lw, att: att, cfg: &cfg, bootSlot: bootSlot,
		strongFin: map[zc.Root]bool{}, strongNext: map[uint64]bool{}, commRoot: map[*zc.SyncCommittee]zc.Root{}, bestOff: map[uint64]uint64{}, reported: map[string]bool{}}
	e.ch = &lcChain{lw: lw, seed: seed ^ 0xc4a1, base: (bootSlot/lcSlotsPerPeriod-2)*lcSlotsPerPeriod - 512, hdr: map[uint64]*zc.BeaconBlockHeader{}, br: map[uint64]*lcBranches{}, genuine: map[zc.Root]uint64{}}
	boot := e.ch.header(bootSlot)
	e.bootRoot = boot.HashTreeRoot(tree.GetHashFn())
	// the trusted checkpoint as this client compares it: the root of the bootstrap's light client header
	trusted := (&deneb.LightClientHeader{Beacon: *boot}).HashTreeRoot(tree.GetHashFn())
	lc, err := beacon.NewConsensusLightClient(lcMockAPI{e}, &cfg, trusted, log.Root())
	if err != nil {
		fatal2("lc: " + err.Error())
	}
	e.lc = lc
	started := false
	go func() {
		defer func() {
			if r := recover(); r != nil {
				w.violate("C12", "panic", "the light client's start loop panicked: %v", r)
			}
		}()
		lc.Start()
		started = true
	}()
	steps := int(p.cfg("steps"))
	for i := 0; i < steps; i++ {
		d := 7 * time.Second
		if until := time.Until(e.blockedUntil); until > 0 {
			d += until
		}
		time.Sleep(d)
		synctest.Wait()
		e.check(fmt.Sprintf("quiescent after step %d", i))
		if e.calls > len(p.Ops)+12 {
			break
		}
	}
	if started {
		w.probe("start_returned")
	}
	if st := &lc.Store; st.FinalizedHeader != nil {
		w.op("end: finalized %d optimistic %d (checkpoint %d, current slot %d), next committee known=%v, %d API calls, %d bootstraps",
			st.FinalizedHeader.Slot, st.OptimisticHeader.Slot, bootSlot, e.nowSlot(), st.NextSyncCommittee != nil, e.calls, e.bootstraps)
		if uint64(st.FinalizedHeader.Slot)+200 > e.nowSlot() {
			w.probe("synced_to_head")
		}
		if uint64(st.FinalizedHeader.Slot)/lcSlotsPerPeriod > bootSlot/lcSlotsPerPeriod {
			w.probe("committee_rotated")
		}
	}
	if e.bootstraps > 1 {
		w.probe("rebootstrapped")
	}
	w.res.Probes["api_calls"] = e.calls
	w.res.Nontrivial = w.res.Probes["finalized_advanced"] > 0
	w.finish()
}
