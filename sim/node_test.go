package sim

import (
	"context"
	"crypto/ecdsa"
	"crypto/sha256"
	"encoding/binary"
	"fmt"
	"net"
	"os"
	"time"

	"github.com/cockroachdb/pebble"
	"github.com/cockroachdb/pebble/vfs"
	"github.com/ethereum/go-ethereum/crypto"
	"github.com/ethereum/go-ethereum/log"
	"github.com/ethereum/go-ethereum/p2p/discover"
	"github.com/ethereum/go-ethereum/p2p/enode"
	"github.com/ethereum/go-ethereum/p2p/enr"
	"github.com/ethereum/go-ethereum/rlp"
	cache "github.com/go-pkgz/expirable-cache/v3"
	"github.com/holiman/uint256"
	"github.com/zen-eth/shisui/portalwire"
	"github.com/zen-eth/shisui/storage"
	spebble "github.com/zen-eth/shisui/storage/pebble"
)

// pv mirrors the unexported ENR entry type of the protocol ("pv").
type pvEntry []uint8

func (pvEntry) ENRKey() string { return "pv" }

// rawEntry lets the harness put arbitrary (possibly malformed) bytes under an ENR key.
type rawEntry struct {
	k string
	v []byte // rlp-encoded value
}

func (r rawEntry) ENRKey() string { return r.k }

func detKey(seed uint64, idx int) *ecdsa.PrivateKey {
	for ctr := 0; ; ctr++ {
		var b [24]byte
		binary.BigEndian.PutUint64(b[:8], seed)
		binary.BigEndian.PutUint64(b[8:16], uint64(idx))
		binary.BigEndian.PutUint64(b[16:], uint64(ctr))
		h := sha256.Sum256(b[:])
		k, err := crypto.ToECDSA(h[:])
		if err == nil {
			return k
		}
	}
}

type nodeCfg struct {
	name     string
	ip       string
	enrIP    string // address the node's record names, when it differs from the address it sends from
	port     int
	key      *ecdsa.PrivateKey
	versions []uint8 // nil: do not set the pv entry at all
	pvRaw    []byte  // if set, raw rlp bytes for the pv entry (malformed tests)
	maxUtp   int
	queueCap int
	// storage
	capacityMB   uint64
	useMock      bool
	fs           vfs.FS // nil => fresh MemFS
	boot         []*enode.Node
	networks     []string
	noQueueDrain bool
	wrapStore    func(storage.ContentStorage) storage.ContentStorage
}

// baseNode is the part shared by full nodes and puppets: socket, discv5, uTP.
type baseNode struct {
	w      *world
	cfg    nodeCfg
	sock   *simSock
	ln     *enode.LocalNode
	db     *enode.DB
	disc   *discover.UDPv5
	utp    *portalwire.UtpTransportService
	pcfg   *portalwire.PortalProtocolConfig
	vcache cache.Cache[*enode.Node, uint8]
}

// shutdown takes the node off the network (crash / stop): sockets closed, nothing else survives.
func (b *baseNode) shutdown() {
	b.utp.Stop()
	b.disc.Close()
	b.sock.Close()
}

func (b *baseNode) self() *enode.Node { return b.ln.Node() }
func (b *baseNode) id() enode.ID      { return b.ln.ID() }
func (b *baseNode) enr() string       { return b.ln.Node().String() }

func quietLogs() {
	if os.Getenv("VERIF_DEBUG") != "" {
		log.SetDefault(log.NewLogger(log.NewTerminalHandlerWithLevel(os.Stderr, log.LevelDebug, false)))
		return
	}
	log.SetDefault(log.NewLogger(log.DiscardHandler()))
}

func (w *world) newBase(cfg nodeCfg) *baseNode {
	if cfg.ip == "" {
		cfg.ip = "127.0.0.1"
	}
	b := &baseNode{w: w, cfg: cfg}
	b.sock = w.net.listen(fmt.Sprintf("%s:%d", cfg.ip, cfg.port), cfg.name)
	db, err := enode.OpenDB("")
	if err != nil {
		fatal2("enode db: " + err.Error())
	}
	b.db = db
	ln := enode.NewLocalNode(db, cfg.key)
	if cfg.enrIP != "" {
		ln.SetStaticIP(net.ParseIP(cfg.enrIP))
	} else {
		ln.SetStaticIP(net.ParseIP(cfg.ip))
	}
	ln.SetFallbackUDP(cfg.port)
	ln.Set(portalwire.Tag)
	if cfg.pvRaw != nil {
		ln.Set(enr.WithEntry("pv", rlp.RawValue(cfg.pvRaw)))
	} else if cfg.versions != nil {
		ln.Set(pvEntry(cfg.versions))
	}
	b.ln = ln
	// LocalNode.Node() sleeps 1ms under its mutex when it re-signs twice within 1ms;
	// pre-sign outside any concurrent use.
	time.Sleep(2 * time.Millisecond)
	ln.Node()
	time.Sleep(2 * time.Millisecond)

	pcfg := portalwire.DefaultPortalProtocolConfig()
	pcfg.MaxUtpConnSize = cfg.maxUtp
	pcfg.BootstrapNodes = cfg.boot
	pcfg.ListenAddr = fmt.Sprintf("%s:%d", cfg.ip, cfg.port)
	pcfg.RadiusCacheSize = 1 << 20
	pcfg.CapabilitiesCacheSize = 1 << 20
	pcfg.EphemeralHeaderCountCacheSize = 1 << 20
	pcfg.ContentKeyCacheSize = 1 << 20
	b.pcfg = pcfg

	dcfg := discover.Config{PrivateKey: cfg.key, Bootnodes: cfg.boot, Log: log.Root()}
	disc, err := discover.ListenV5(b.sock, ln, dcfg)
	if err != nil {
		fatal2("listenv5: " + err.Error())
	}
	b.disc = disc
	b.utp = portalwire.NewZenEthUtp(context.Background(), pcfg, disc, b.sock)
	b.vcache = cache.NewCache[*enode.Node, uint8]().WithMaxKeys(pcfg.VersionsCacheSize).WithTTL(pcfg.VersionsCacheTTL)
	return b
}

// proto is one sub-protocol instance of a full node.
type proto struct {
	name  string
	id    portalwire.ProtocolId
	p     *portalwire.PortalProtocol
	api   *portalwire.PortalProtocolAPI
	queue chan *portalwire.ContentElement
	store storage.ContentStorage
	db    *pebble.DB
	fs    vfs.FS
}

type fullNode struct {
	*baseNode
	hist *proto
}

func openPebble(fs vfs.FS, dir string) *pebble.DB {
	opts := &pebble.Options{FS: fs, MemTableSize: 1 << 20, DisableAutomaticCompactions: false}
	opts.Experimental.ReadSamplingMultiplier = -1
	db, err := pebble.Open(dir, opts)
	if err != nil {
		fatal2("pebble open: " + err.Error())
	}
	return db
}

// newPlainProto wires a PortalProtocol over a plain pebble ContentStorage (or mock) with a
// harness-owned content queue.
func (b *baseNode) newPlainProto(id portalwire.ProtocolId) *proto {
	pr := &proto{name: id.Name(), id: id}
	if b.cfg.useMock {
		pr.store = storage.NewMockStorage()
	} else {
		fs := b.cfg.fs
		if fs == nil {
			fs = vfs.NewMem()
		}
		pr.fs = fs
		pr.db = openPebble(fs, "/"+id.Name())
		st, err := spebble.NewStorage(storage.PortalStorageConfig{StorageCapacityMB: b.cfg.capacityMB, NodeId: b.id(), NetworkName: id.Name()}, pr.db)
		if err != nil {
			fatal2("newstorage: " + err.Error())
		}
		pr.store = st
	}
	if b.cfg.wrapStore != nil {
		pr.store = b.cfg.wrapStore(pr.store)
	}
	qc := b.cfg.queueCap
	if qc == 0 {
		qc = 50
	}
	pr.queue = make(chan *portalwire.ContentElement, qc)
	p, err := portalwire.NewPortalProtocol(b.pcfg, id, b.cfg.key, b.sock, b.ln, b.disc, b.utp, pr.store, pr.queue, b.vcache,
		portalwire.WithDisableTableInitCheckOption(true))
	if err != nil {
		fatal2("newportal: " + err.Error())
	}
	pr.p = p
	pr.api = portalwire.NewPortalAPI(p)
	if err := p.Start(); err != nil {
		fatal2("start: " + err.Error())
	}
	return pr
}

// decoStore is a harness decorator at the ContentStorage seam: it can override the
// advertised radius and records every call.
type decoStore struct {
	inner  storage.ContentStorage
	radius *uint256.Int // nil: inner's
	puts   int
	gets   int
	onPut  func(key, id, val []byte)
	// failGet: injected read fault (disk error) for the next reads while it returns a non-nil error
	failGet func(key []byte) error
}

func (d *decoStore) Get(k, id []byte) ([]byte, error) {
	d.gets++
	if d.failGet != nil {
		if err := d.failGet(k); err != nil {
			return nil, err
		}
	}
	return d.inner.Get(k, id)
}
func (d *decoStore) Put(k, id, v []byte) error {
	d.puts++
	if d.onPut != nil {
		d.onPut(k, id, v)
	}
	return d.inner.Put(k, id, v)
}
func (d *decoStore) Radius() *uint256.Int {
	if d.radius != nil {
		return d.radius
	}
	return d.inner.Radius()
}
func (d *decoStore) Close() error { return d.inner.Close() }
