package sim

import (
	"bytes"
	"context"
	"encoding/binary"
	"fmt"
	"net"
	"runtime"
	"strings"
	"time"

	"github.com/ethereum/go-ethereum/common/hexutil"
	"github.com/ethereum/go-ethereum/p2p/enode"
	"github.com/ethereum/go-ethereum/rlp"
	"github.com/protolambda/zrnt/eth2/beacon/capella"
	zcommon "github.com/protolambda/zrnt/eth2/beacon/common"
	"github.com/protolambda/zrnt/eth2/configs"
	"github.com/protolambda/ztyp/codec"
	"github.com/protolambda/ztyp/tree"
	"github.com/zen-eth/shisui/portalwire"
	pingext "github.com/zen-eth/shisui/portalwire/ping_ext"
	tbeacon "github.com/zen-eth/shisui/types/beacon"
)

// C01 — no remote input can crash or wedge the node.

func init() { engines["c01"] = runC01 }

var c01Protos = []string{string(portalwire.History), string(portalwire.State), string(portalwire.Beacon), string(portalwire.Utp), "\x50\x77", ""}
var c01Nets = []string{"history", "state", "beacon"}

func genC01(r *prng) *plan {
	p := &plan{Cfg: map[string]int64{}}
	p.Cfg["faults"] = int64(r.intn(3) / 2)
	p.Cfg["vv"] = int64(r.intn(3))
	if r.chance(20) {
		// every validation (all three networks) under seeded preemption, batched delivery
		p.Cfg["preempt"] = int64([]int{1, 3, 9, 40}[r.intn(4)])
		p.Cfg["quantum"] = int64([]int{0, 5, 20}[r.intn(3)])
	}
	n := 6 + r.intn(14)
	for i := 0; i < n; i++ {
		switch r.intn(10) {
		case 0, 1, 2:
			p.Ops = append(p.Ops, opSpec{K: "talk", N: []int64{int64(r.intn(len(c01Protos))), int64(r.intn(12)), int64(r.u64() >> 1)}})
		case 3, 4, 5:
			p.Ops = append(p.Ops, opSpec{K: "vcall", N: []int64{int64(r.intn(3)), int64([]int{0, 1, 2, 3, 3, 3, 4, 5, 6, 7, 8}[r.intn(11)]), int64(r.intn(10)), int64(r.u64() >> 1)}})
		case 6, 7, 8:
			p.Ops = append(p.Ops, opSpec{K: "offer", N: []int64{int64(r.intn(3)), int64(r.intn(6)), int64(r.intn(8)), int64(r.u64() >> 1)}})
		default:
			p.Ops = append(p.Ops, opSpec{K: "utpraw", N: []int64{int64(r.intn(4)), int64(r.u64() >> 1)}})
		}
	}
	if r.chance(12) {
		// a node that follows the chain (its light client has a finalized header) is offered historical
		// summaries that verify against that header, under keys of the right and of other lengths, twice each
		p.Ops = append(p.Ops, opSpec{K: "summaries", N: []int64{int64(r.intn(6)), int64(r.u64() >> 1)}})
	}
	return p
}

// mutate applies one of a fixed set of byte-level mutations.
func mutate(rs *prng, b []byte, kind int) []byte {
	out := append([]byte(nil), b...)
	switch kind % 10 {
	case 0:
		return out
	case 1:
		return out[:rs.intn(len(out)+1)]
	case 2:
		if len(out) > 0 {
			return out[:1]
		}
	case 3:
		if len(out) > 1 {
			return out[:2]
		}
	case 4:
		return append(out, rs.bytes(1+rs.intn(40))...)
	case 5:
		for i := 0; i < 1+rs.intn(4) && len(out) > 0; i++ {
			out[rs.intn(len(out))] ^= byte(1 << uint(rs.intn(8)))
		}
	case 6:
		// corrupt a 4-byte little-endian offset-looking field near the start
		if len(out) > 6 {
			pos := 1 + rs.intn(min(len(out)-4, 24))
			copy(out[pos:], rs.bytes(4))
		}
	case 7:
		return rs.bytes(rs.intn(1150))
	case 8:
		return []byte{}
	case 9:
		if len(out) > 3 {
			// drop a chunk in the middle
			a := rs.intn(len(out) - 1)
			bb := a + 1 + rs.intn(len(out)-a-1)
			return append(out[:a], out[bb:]...)
		}
	}
	return out
}

func c01Key(rs *prng, vecs []vector, netName string, kind int) []byte {
	switch kind % 6 {
	case 0:
		return []byte{}
	case 1:
		return []byte{c01Selector(rs, netName)}
	case 2:
		// a valid selector followed by too few, just enough or too many bytes
		return append([]byte{c01Selector(rs, netName)}, rs.bytes([]int{1, 2, 7, 8, 9, 16, 31, 32, 33, rs.intn(70)}[rs.intn(10)])...)
	case 3, 4:
		var cand []vector
		for _, v := range vecs {
			if v.Net == netName {
				cand = append(cand, v)
			}
		}
		if len(cand) > 0 {
			k := cand[rs.intn(len(cand))].Key
			if kind%6 == 4 {
				return mutate(rs, k, 1+rs.intn(9))
			}
			return k
		}
	}
	return rs.bytes(rs.intn(100))
}

func runC01(seed uint64) {
	p := loadOrGenPlan("c01", seed, genC01)
	w := newWorld(seed, "C01", "c01")
	w.wedgeIsViolation = true
	faults := p.cfg("faults") == 1
	w.res.Class = map[bool]string{true: "faults", false: "fault-free"}[faults]
	vv := versionSets[p.cfg("vv")%3]
	vecs := loadVectors()
	V := w.newFullNode(nodeCfg{name: "V", port: 9001, key: detKey(seed, 1), versions: vv, maxUtp: 10, capacityMB: 100}, c01Nets)
	ATT := w.newPuppet(nodeCfg{name: "ATT", port: 9002, key: detKey(seed, 2), versions: vv, maxUtp: 50})
	H := w.newPuppet(nodeCfg{name: "H", port: 9003, key: detKey(seed, 3), versions: vv, maxUtp: 50})
	// the attacker's scripted response per protocol
	respFor := map[string]func(msg []byte, from *enode.Node, addr *net.UDPAddr) []byte{}
	for _, pid := range c01Protos[:3] {
		pid := pid
		ATT.handlers[pid] = func(from *enode.Node, addr *net.UDPAddr, msg []byte) []byte {
			if f := respFor[pid]; f != nil {
				return f(msg, from, addr)
			}
			return nil
		}
	}
	for _, ni := range V.nets {
		ni.p.AddEnr(ATT.self())
	}
	// a stored item on each network for the final liveness probe
	probeKey := map[string][]byte{}
	probeVal := []byte("liveness-probe-content")
	for name, ni := range V.nets {
		var k []byte
		switch name {
		case "history":
			k = append([]byte{0x01}, newPrng(seed).bytes(32)...) // block body key
		case "state":
			k = nil // state storage only accepts validated tries; probe with a missing key
		case "beacon":
			k = nil
		}
		if k != nil {
			if err := ni.store.inner.Put(k, ni.p.ToContentId(k), probeVal); err == nil {
				probeKey[name] = k
			}
		}
	}
	// the storage adapters behave differently once they hold something (comparisons against stored
	// records, range reads): pre-load the repository's genuine vectors of each network
	for _, v := range vecs {
		if ni := V.nets[v.Net]; ni != nil && v.Kind != "retrieval" && len(v.Key) > 0 {
			func() {
				defer func() { recover() }() // a vector the adapter cannot take is simply not pre-loaded
				if err := ni.store.inner.Put(v.Key, ni.p.ToContentId(v.Key), v.Val); err == nil {
					w.res.Probes["preloaded_"+v.Net]++
				}
			}()
		}
	}
	w.runFor(50 * time.Millisecond)
	if faults {
		w.net.faultsOn = true
		w.net.faults = netFaults{MinLatency: 2 * time.Millisecond, Jitter: 40 * time.Millisecond, DropPct: 4, DupPct: 4}
	}
	if pre := uint64(p.cfg("preempt")); pre > 0 {
		w.res.Class += "+preempt"
		w.net.faults.Quantum = time.Duration(p.cfg("quantum")) * time.Millisecond
		for _, ni := range V.nets {
			if ni.val != nil {
				ni.val.preemptEvery, ni.val.preemptSeed = pre, seed^0x93e
			}
		}
	}

	for opi, op := range p.Ops {
		rs := newPrng(uint64(op.N[len(op.N)-1]) + 1)
		switch op.K {
		case "talk":
			proto := c01Protos[int(op.n(0))%len(c01Protos)]
			netName := "history"
			if int(op.n(0)) < 3 {
				netName = c01Nets[op.n(0)]
			}
			payload := c01TalkPayload(rs, vecs, netName, int(op.n(1)))
			var resp []byte
			okc, err := w.call("talk", 5*time.Second, func() error {
				var e error
				resp, e = ATT.disc.TalkRequest(V.self(), proto, payload)
				return e
			})
			w.op("talk#%d proto=%x kind=%d len=%d first=%x -> ok=%v err=%v resp=%d", opi, proto, op.n(1), len(payload), head(payload, 6), okc, err != nil, len(resp))
			w.abstract("talk p%d k%d r%d", op.n(0), op.n(1), respClass(resp, err))
			if !okc {
				w.violate("C01", "request-hung", "TALKREQ (%d bytes on %x) neither answered nor timed out", len(payload), proto)
			}
			w.probe("talk")
		case "utpraw":
			var payload []byte
			switch op.n(0) {
			case 0:
				payload = rs.bytes(rs.intn(60))
			case 1:
				payload = append([]byte{byte(rs.intn(5)<<4 | 1), 0}, rs.bytes(18+rs.intn(30))...) // uTP v1 header shapes
			case 2:
				payload = []byte{}
			default:
				payload = append([]byte{0x41, 0x00}, rs.bytes(18)...) // SYN-like
			}
			okc, _ := w.call("utpraw", 5*time.Second, func() error {
				_, e := ATT.disc.TalkRequest(V.self(), string(portalwire.Utp), payload)
				return e
			})
			w.op("utpraw#%d len=%d ok=%v", opi, len(payload), okc)
			w.abstract("utpraw k%d", op.n(0))
			w.probe("utpraw")
		case "vcall":
			c01VictimCall(w, V, ATT, respFor, vecs, vv, opi, op, rs)
		case "offer":
			c01AttackerOffer(w, V, ATT, vecs, vv, opi, op, rs)
		case "summaries":
			c01Summaries(w, V, ATT, vecs, vv, opi, op, rs)
		}
		if len(V.panics) > 0 {
			break
		}
	}
	// ---- after the last injection ----
	w.net.faultsOn = false
	for k := range respFor {
		delete(respFor, k)
	}
	settled := w.runUntil(func() bool { return w.inflightTasks == 0 }, 120*time.Second)
	w.runFor(120 * time.Second)
	for _, pr := range V.panics {
		w.violate("C01", "panic", "%s panicked: %v @ %s", pr.where, pr.val, shisuiFrames(pr.stack))
	}
	if !settled {
		w.violate("C01", "call-hung", "%d calls the node made did not return within 120 virtual seconds after the last injection", w.inflightTasks)
	}
	// no talk handler may still be running
	buf := make([]byte, 16<<20)
	dump := string(buf[:runtime.Stack(buf, true)])
	if n := strings.Count(dump, "portalwire.(*PortalProtocol).handleTalkRequest"); n > 0 {
		w.violate("C01", "handler-stuck", "%d talk handlers are still running 240 virtual seconds after the last injection", n)
	}
	// the node still serves an honest peer
	for _, name := range c01Nets {
		ni := V.nets[name]
		var resp []byte
		okc, err := w.call("honest-ping", 10*time.Second, func() error {
			var e error
			resp, e = H.talk(V.self(), ni.id, encPing(1, 0, encRadiusPayload(0, maxU256)))
			return e
		})
		if !okc || err != nil || len(resp) == 0 || resp[0] != portalwire.PONG {
			w.violate("C01", "wedged", "after the attack an honest PING on %s gets no PONG (err=%v, %d bytes)", name, err, len(resp))
		}
		if k := probeKey[name]; k != nil {
			okc, err := w.call("honest-find", 10*time.Second, func() error {
				var e error
				resp, e = H.talk(V.self(), ni.id, encFindContent(k))
				return e
			})
			rep := decContent(resp)
			if !okc || err != nil || rep.kind != "raw" || !bytes.Equal(rep.raw, probeVal) {
				w.violate("C01", "wedged", "after the attack an honest FINDCONTENT on %s does not return the stored item (err=%v kind=%s)", name, err, rep.kind)
			}
		}
	}
	w.res.Nontrivial = len(p.Ops) > 0
	if p.cfg("preempt") > 0 {
		n := uint64(0)
		for _, ni := range V.nets {
			if ni.val != nil {
				n += ni.val.preempts
			}
		}
		w.res.Faults["preemption"] = int(n)
	}
	w.finish()
}

func head(b []byte, n int) []byte {
	if len(b) > n {
		return b[:n]
	}
	return b
}

func respClass(resp []byte, err error) int {
	switch {
	case err != nil:
		return 0
	case len(resp) == 0:
		return 1
	}
	return 2 + int(resp[0])
}

func shisuiFrames(stack string) string {
	var out []string
	for _, l := range strings.Split(stack, "\n") {
		if strings.Contains(l, "github.com/zen-eth/shisui/") && !strings.HasPrefix(l, "\t") {
			f := strings.TrimPrefix(l, "github.com/zen-eth/shisui/")
			if i := strings.LastIndex(f, "("); i > 0 {
				f = f[:i] // drop the argument list: it holds addresses, which differ between processes
			}
			out = append(out, f)
			if len(out) >= 3 {
				break
			}
		}
	}
	return strings.Join(out, " < ")
}

// c01TalkPayload builds a TALKREQ payload: valid messages of each request code and their mutants.
func c01TalkPayload(rs *prng, vecs []vector, netName string, kind int) []byte {
	var valid []byte
	switch rs.intn(4) {
	case 0:
		valid = encPing(uint64(rs.intn(5)), []uint16{0, 1, 2, 65535, 7}[rs.intn(5)], encRadiusPayload(uint16(rs.intn(3)), maxU256))
		if rs.chance(50) {
			// a well-formed client-info payload advertising an unusual capability list (none, unknown ones
			// only, the error type only, very many): the node caches it and consults it when it pings back
			var caps []uint16
			switch rs.intn(6) {
			case 0:
			case 1:
				caps = []uint16{65535}
			case 2:
				caps = []uint16{0, 65535}
			case 3:
				caps = []uint16{9, 77, 4000}
			case 4:
				for i := 0; i < 300+rs.intn(200); i++ {
					caps = append(caps, uint16(rs.intn(65536)))
				}
			default:
				caps = []uint16{uint16(rs.intn(4)), uint16(rs.intn(65536))}
			}
			var rb [32]byte
			for i := range rb {
				rb[i] = 0xff
			}
			pl := pingext.NewClientInfoAndCapabilitiesPayload(rb[:], caps)
			if b, err := pl.MarshalSSZ(); err == nil {
				valid = encPing(uint64(rs.intn(5)), 0, b)
			}
		}
	case 1:
		valid = encFindNodes(c11Distances(int64(rs.intn(9)), rs))
	case 2:
		valid = encFindContent(c01Key(rs, vecs, netName, rs.intn(6)))
	default:
		n := rs.intn(5)
		var keys [][]byte
		for i := 0; i < n; i++ {
			keys = append(keys, c01Key(rs, vecs, netName, rs.intn(6)))
		}
		valid = encOffer(keys)
	}
	switch kind {
	case 10:
		return []byte{byte(rs.intn(256))}
	case 11:
		return []byte{byte(rs.intn(9)), byte(rs.intn(256))}
	}
	return mutate(rs, valid, kind)
}

// c01VictimCall makes the node issue a request to the attacker, who answers with arbitrary bytes.
func c01VictimCall(w *world, V *fullNodeT, ATT *puppet, respFor map[string]func([]byte, *enode.Node, *net.UDPAddr) []byte, vecs []vector, vv []uint8, opi int, op opSpec, rs *prng) {
	netName := c01Nets[op.n(0)%3]
	ni := V.nets[netName]
	call := int(op.n(1))
	mk := int(op.n(2))
	stream := rs.bytes(rs.intn(5000))
	respFor[string(ni.id)] = func(msg []byte, from *enode.Node, addr *net.UDPAddr) []byte {
		if len(msg) == 0 {
			return nil
		}
		rr := newPrng(uint64(len(msg))*131 + uint64(opi))
		var valid []byte
		switch msg[0] {
		case portalwire.PING:
			valid = encPong(uint64(rr.intn(3))<<uint(rr.intn(60)), []uint16{0, 1, 2, 65535, 9}[rr.intn(5)], mutate(rr, encRadiusPayload(uint16(rr.intn(3)), maxU256), rr.intn(8)))
		case portalwire.FINDNODES:
			n := rr.intn(6)
			var enrs [][]byte
			for i := 0; i < n; i++ {
				rec, _ := rlp.EncodeToBytes(makeENR(detKey(w.seed, 500+i+opi*10), net.IP{127, 0, 0, 1}, 4000+i, 1, 0).Record())
				enrs = append(enrs, mutate(rr, rec, rr.intn(8)))
			}
			valid = append([]byte{portalwire.NODES, byte(rr.intn(3)), 5, 0, 0, 0}, sszLists(enrs)...)
		case portalwire.FINDCONTENT:
			switch rr.intn(4) {
			case 0:
				valid = append([]byte{portalwire.CONTENT, portalwire.ContentRawSelector}, c01Content(rr, vecs, netName)...)
			case 1:
				cid := ATT.utp.CidWithAddr(from, addr, false)
				go func() {
					ctx, cancel := context.WithTimeout(context.Background(), 20*time.Second)
					defer cancel()
					st, err := ATT.utp.AcceptWithCid(ctx, cid)
					if err != nil {
						return
					}
					wctx, wcancel := context.WithTimeout(context.Background(), 60*time.Second)
					defer wcancel()
					st.Write(wctx, stream)
					st.Close()
				}()
				valid = []byte{portalwire.CONTENT, portalwire.ContentConnIdSelector, byte(cid.Send >> 8), byte(cid.Send)}
			case 2:
				rec, _ := rlp.EncodeToBytes(makeENR(detKey(w.seed, 700+opi), net.IP{127, 0, 0, 1}, 4100, 1, 0).Record())
				valid = append([]byte{portalwire.CONTENT, portalwire.ContentEnrsSelector}, sszLists([][]byte{rec, mutate(rr, rec, rr.intn(8))})...)
			default:
				valid = []byte{portalwire.CONTENT, byte(rr.intn(256))}
			}
		case portalwire.OFFER:
			// mostly the framing of the negotiated version, with a verdict list that is exact, longer
			// (surplus positions accepted), shorter, or at/over the 64-key limit
			ks, _ := decOfferKeys(msg)
			n := len(ks)
			switch rr.intn(6) {
			case 0, 1:
				n += 1 + rr.intn(3)
			case 2:
				n = rr.intn(n + 1)
			case 3:
				n = 63 + rr.intn(4)
			}
			all := make([]bool, n)
			for i := range all {
				all[i] = rr.chance(60) || (i >= len(ks) && rr.chance(70))
			}
			ver := uint8(rr.intn(2))
			if hv, ok := highestCommon(vv, vv, true); ok && rr.chance(75) {
				ver = hv
			}
			valid = encAccept(ver, uint16(rr.intn(65536)), all)
			if rr.chance(50) {
				return valid
			}
		default:
			valid = rr.bytes(rr.intn(30))
		}
		return mutate(rr, valid, mk)
	}
	name := []string{"ping", "findnodes", "findcontent", "offer", "recursive-find-content", "getter", "lookup-nodes", "trace-offer", "trace-find-content"}[call%9]
	key := c01Key(rs, vecs, netName, 1+rs.intn(5))
	if len(key) == 0 {
		key = []byte{byte(rs.intn(0x30))} // keys of the node's own calls are local input, not a peer's: never empty
	}
	t := w.spawn("vcall", func() (err error) {
		switch call % 9 {
		case 0:
			_, err = ni.api.Ping(ATT.enr(), nil, nil)
		case 1:
			_, err = ni.api.FindNodes(ATT.enr(), []uint{256, 255, 0})
		case 2:
			_, err = ni.api.FindContent(ATT.enr(), hexutil.Encode(key))
		case 3:
			items := [][2]string{{hexutil.Encode(key), hexutil.Encode(rs.bytes(rs.intn(3000)))}}
			for i := rs.intn(4); i > 0; i-- {
				items = append(items, [2]string{hexutil.Encode(append([]byte{key[0]}, rs.bytes(32)...)), hexutil.Encode(rs.bytes(rs.intn(500)))})
			}
			_, err = ni.api.Offer(ATT.enr(), items)
		case 4:
			_, err = ni.api.RecursiveFindContent(hexutil.Encode(key))
		case 5:
			if V.histNet != nil {
				h := rs.bytes(32)
				switch rs.intn(3) {
				case 0:
					_, err = V.histNet.GetBlockHeader(h)
				case 1:
					_, err = V.histNet.GetBlockBody(h)
				default:
					_, err = V.histNet.GetReceipts(h)
				}
			}
		case 6:
			_, err = ni.api.RecursiveFindNodes(enode.ID{1, 2, 3}.String())
		case 7:
			_, err = ni.api.TraceOffer(ATT.enr(), hexutil.Encode(key), hexutil.Encode(rs.bytes(rs.intn(2000))))
		default:
			_, err = ni.api.TraceRecursiveFindContent(hexutil.Encode(key))
		}
		return err
	})
	w.runUntil(func() bool { return t.done }, 30*time.Second)
	w.op("vcall#%d %s/%s mutation=%d -> done=%v err=%v", opi, netName, name, mk, t.done, t.err != nil)
	w.abstract("vcall %s %s m%d done=%v", netName, name, mk, t.done)
	w.probe("vcall_" + name)
}

func sszLists(items [][]byte) []byte {
	off := 4 * len(items)
	var offs, data []byte
	for _, e := range items {
		offs = append(offs, byte(off), byte(off>>8), byte(off>>16), byte(off>>24))
		data = append(data, e...)
		off += len(e)
	}
	return append(offs, data...)
}

func c01Content(rs *prng, vecs []vector, netName string) []byte {
	var cand []vector
	for _, v := range vecs {
		if v.Net == netName && len(v.Val) < 1100 {
			cand = append(cand, v)
		}
	}
	if len(cand) == 0 || rs.chance(30) {
		return rs.bytes(rs.intn(1000))
	}
	return mutate(rs, cand[rs.intn(len(cand))].Val, rs.intn(10))
}

// c01AttackerOffer: the attacker offers (key, content) pairs and completes (or abuses) the transfer.
func c01AttackerOffer(w *world, V *fullNodeT, ATT *puppet, vecs []vector, vv []uint8, opi int, op opSpec, rs *prng) {
	netName := c01Nets[op.n(0)%3]
	ni := V.nets[netName]
	var cand []vector
	for _, v := range vecs {
		if v.Net == netName && v.Kind != "retrieval" {
			cand = append(cand, v)
		}
	}
	nk := 1 + rs.intn(3)
	var keys, items [][]byte
	for i := 0; i < nk; i++ {
		if len(cand) > 0 && !rs.chance(15) {
			v := cand[rs.intn(len(cand))]
			k, c := v.Key, v.Val
			switch op.n(1) {
			case 1:
				c = mutate(rs, c, 1+rs.intn(9))
			case 2:
				k = mutate(rs, k, 1+rs.intn(9))
			case 3:
				c = cand[rs.intn(len(cand))].Val // cross-pairing
			case 4:
				k = c01Key(rs, vecs, netName, rs.intn(3))
			}
			keys, items = append(keys, k), append(items, c)
		} else {
			keys, items = append(keys, c01Key(rs, vecs, netName, rs.intn(6))), append(items, rs.bytes(rs.intn(2000)))
		}
	}
	streamKind := int(op.n(2))
	t := w.spawn("att-offer", func() error {
		resp, err := ATT.talk(V.self(), ni.id, encOffer(keys))
		if err != nil {
			return nil
		}
		ver, _ := highestCommon(vv, vv, true)
		a := decAccept(ver, resp)
		if !a.ok || !a.anyAccepted() {
			return nil
		}
		var acc [][]byte
		for _, i := range a.acceptedIdx() {
			if i < len(items) {
				acc = append(acc, items[i])
			}
		}
		var payload []byte
		switch streamKind {
		case 0, 1, 2:
			payload = frameItems(acc)
		case 3:
			payload = mutate(rs, frameItems(acc), 1+rs.intn(9))
		case 4:
			payload = []byte{0xff, 0xff, 0xff, 0xff, 0x0f} // varint 2^32-1, nothing follows
		case 5:
			payload = []byte{0x80, 0x80, 0x80, 0x80, 0x80, 0x80, 0x01}
		case 6:
			payload = nil // connect and close
		default:
			payload = rs.bytes(rs.intn(4000))
		}
		ctx, cancel := context.WithTimeout(context.Background(), 20*time.Second)
		defer cancel()
		st, err := ATT.utp.DialWithCid(ctx, V.self(), a.connID)
		if err != nil {
			return nil
		}
		defer st.Close()
		if payload != nil {
			wctx, wcancel := context.WithTimeout(context.Background(), 60*time.Second)
			defer wcancel()
			st.Write(wctx, payload)
		}
		w.res.Probes["offer_stream_sent"]++
		return nil
	})
	w.runUntil(func() bool { return t.done }, 30*time.Second)
	w.runFor(2 * time.Second) // validation runs asynchronously
	w.op("offer#%d %s keys=%d keymut=%d stream=%d first-key=%x", opi, netName, nk, op.n(1), streamKind, head(keys[0], 8))
	w.abstract("offer %s m%d s%d", netName, op.n(1), streamKind)
	w.probe("offer_" + netName)
	_ = fmt.Sprint
}

// c01Selector: mostly a selector byte the network really uses, sometimes any byte.
func c01Selector(rs *prng, netName string) byte {
	if rs.chance(25) {
		return byte(rs.intn(256))
	}
	switch netName {
	case "history":
		return byte(rs.intn(5))
	case "state":
		return byte(0x20 + rs.intn(3))
	case "beacon":
		return byte(0x10 + rs.intn(5))
	}
	return byte(rs.intn(0x30))
}

// c01Summaries: the beacon network's validator accepts historical summaries only against the finalized state
// root of the node's light client. The harness gives the light client a finalized header whose state root is the
// one a genuine summaries vector proves against (a node in sync), then the attacker offers that content under
// the genuine key and under keys with bytes appended or cut off, each twice.
func c01Summaries(w *world, V *fullNodeT, ATT *puppet, vecs []vector, vv []uint8, opi int, op opSpec, rs *prng) {
	ni := V.nets["beacon"]
	if ni == nil || V.lc == nil {
		w.op("summaries#%d skipped: no beacon network / light client", opi)
		return
	}
	// content built by the harness in the encoding this node decodes (a six-node proof of which it folds five)
	f := &tbeacon.ForkedHistoricalSummariesWithProof{}
	copy(f.ForkDigest[:], []byte{0x6a, 0x95, 0xa1, 0xa9})
	f.HistoricalSummariesWithProof.EPOCH = zcommon.Epoch(300000 + rs.intn(1000))
	for i := 0; i < 1+rs.intn(4); i++ {
		var hs capella.HistoricalSummary
		copy(hs.BlockSummaryRoot[:], rs.bytes(32))
		copy(hs.StateSummaryRoot[:], rs.bytes(32))
		f.HistoricalSummariesWithProof.HistoricalSummaries = append(f.HistoricalSummariesWithProof.HistoricalSummaries, hs)
	}
	for i := range f.HistoricalSummariesWithProof.Proof.Proof {
		copy(f.HistoricalSummariesWithProof.Proof.Proof[i][:], rs.bytes(32))
	}
	var cbuf bytes.Buffer
	if err := f.Serialize(configs.Mainnet, codec.NewEncodingWriter(&cbuf)); err != nil {
		fatal2("c01 summaries: " + err.Error())
	}
	vec := &vector{Key: append([]byte{0x14}, make([]byte, 8)...), Val: cbuf.Bytes()}
	binary.LittleEndian.PutUint64(vec.Key[1:], uint64(f.HistoricalSummariesWithProof.EPOCH))
	// the state root this proof leads to (generalized index 59: depth 5, index 27)
	v := f.HistoricalSummariesWithProof.HistoricalSummaries.HashTreeRoot(configs.Mainnet, tree.GetHashFn())
	for i, ix := 0, uint64(27); i < 5; i, ix = i+1, ix>>1 {
		sib := zcommon.Root(f.HistoricalSummariesWithProof.Proof.Proof[i])
		if ix&1 == 1 {
			v = h2(sib, v)
		} else {
			v = h2(v, sib)
		}
	}
	hdr := &zcommon.BeaconBlockHeader{Slot: zcommon.Slot(uint64(f.HistoricalSummariesWithProof.EPOCH) * 32), StateRoot: v}
	V.lc.Store.FinalizedHeader, V.lc.Store.OptimisticHeader = hdr, hdr
	key := append([]byte{}, vec.Key...)
	switch op.n(0) {
	case 1:
		key = append(key, 0)
	case 2:
		key = append(key, rs.bytes(1+rs.intn(3))...)
	case 3:
		key = key[:len(key)-1]
	case 4:
		key = append(key, rs.bytes(24)...)
	case 5:
		key = key[:1+rs.intn(8)]
	}
	for round := 0; round < 2; round++ {
		t := w.spawn("att-summaries", func() error {
			resp, err := ATT.talk(V.self(), ni.id, encOffer([][]byte{key}))
			if err != nil {
				return nil
			}
			ver, _ := highestCommon(vv, vv, true)
			a := decAccept(ver, resp)
			if !a.ok || !a.anyAccepted() {
				return nil
			}
			ctx, cancel := context.WithTimeout(context.Background(), 20*time.Second)
			defer cancel()
			st, err := ATT.utp.DialWithCid(ctx, V.self(), a.connID)
			if err != nil {
				return nil
			}
			defer st.Close()
			wctx, wcancel := context.WithTimeout(context.Background(), 60*time.Second)
			defer wcancel()
			st.Write(wctx, frameItems([][]byte{vec.Val}))
			w.res.Probes["summaries_stream_sent"]++
			return nil
		})
		w.runUntil(func() bool { return t.done }, 30*time.Second)
		w.runFor(3 * time.Second)
		if len(V.panics) > 0 {
			break
		}
	}
	w.op("summaries#%d key of %d bytes (variant %d) offered twice to a node whose finalized state root the content proves against", opi, len(key), op.n(0))
	w.abstract("summaries k%d", op.n(0))
	w.probe("offer_summaries")
}
