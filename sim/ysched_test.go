package sim

import (
	"os"
	"reflect"
	"sync"
	"testing/synctest"
	"time"
	"unsafe"
)

// ysched is the seeded task scheduler for code instrumented with yield points whose goroutines are not all
// started by the harness (the routing table: its loop, refresh and revalidation goroutines). While it is on,
// every goroutine that reaches a yield point without any watched mutex being held parks there and becomes a
// task; the scheduler resumes one parked task at a time. A goroutine that holds a watched mutex is never
// parked (a waiter on sync.Mutex is not durably blocked for the bubble), so on a tree with correct lock
// discipline tasks interleave exactly at the places where they may in reality: outside the critical
// sections. Code that touches shared state without the lock it needs gets interleaved in the middle of it.
var ytrace = os.Getenv("VERIF_YTRACE") != ""

type ysched struct {
	on     bool
	byGoid map[uint64]*ytask
	order  []*ytask // in order of first appearance: deterministic
	locks  []lockProbe
	parks  int
	skips  int
	wake   chan struct{} // optional: poked when a goroutine parks (world.step sleeps on it)
	// optional fault: a parked goroutine is left where it is for 1..stallMaxMs virtual milliseconds
	stallPct, stallMaxMs, stalls int
}

func newYsched(locks []lockProbe) *ysched {
	return &ysched{byGoid: map[uint64]*ytask{}, locks: locks}
}

func (y *ysched) yield(site string) {
	if !y.on {
		return
	}
	for _, l := range y.locks {
		if l.held() {
			y.skips++
			return
		}
	}
	g := verifGoid()
	t := y.byGoid[g]
	if t == nil {
		t = &ytask{name: site, resume: make(chan struct{})}
		y.byGoid[g] = t
		y.order = append(y.order, t)
	}
	y.parks++
	t.site = site
	t.parked = true
	if ytrace {
		println("YSCHED park", len(y.order), site, "t=", time.Now().UnixNano())
	}
	if y.wake != nil {
		// the stepper may be asleep until the next datagram or deadline: somebody is waiting for it now
		select {
		case y.wake <- struct{}{}:
		default:
		}
	}
	<-t.resume
	t.parked = false
}

// run executes fns as tasks together with whatever other goroutines reach yield points meanwhile, until
// all fns have returned and nobody is parked any more (everybody else is blocked waiting for an event);
// then the scheduler is switched off.
func (y *ysched) run(sched *prng, fns []func()) (switches int, stuck bool) {
	done := make([]bool, len(fns))
	y.on = true
	for i, fn := range fns {
		started := make(chan struct{})
		go func() {
			t := &ytask{name: "op", resume: make(chan struct{})}
			y.byGoid[verifGoid()] = t
			y.order = append(y.order, t)
			close(started)
			t.parked = true
			<-t.resume
			t.parked = false
			fn()
			done[i] = true
		}()
		<-started
	}
	last := -1
	steps := 0
	pct := sched.chance(50)
	var prio []int
	changeAt := []int{1 + sched.intn(120), 1 + sched.intn(120), 1 + sched.intn(400)}
	for {
		synctest.Wait()
		all := true
		for _, d := range done {
			all = all && d
		}
		var runnable []int
		for i, t := range y.order {
			if t.parked {
				runnable = append(runnable, i)
			}
		}
		if all && len(runnable) == 0 {
			// the operations have returned and what they left for the other goroutines (queued requests
			// of the table loop) has been worked off under the scheduler as well
			break
		}
		steps++
		if steps > 100000 {
			stuck = true
			break
		}
		if len(runnable) == 0 {
			// everybody waits for time to pass (a slow peer's answer, a timer)
			time.Sleep(time.Millisecond)
			continue
		}
		var pick int
		if pct {
			// priority scheduling with a few priority change points (after Burckhardt et al., "A Randomized
			// Scheduler with Probabilistic Guarantees of Finding Bugs"): the highest-priority parked task
			// runs; at each change point the task that ran last drops below everybody else. Short
			// operations then do not simply finish before the long one has reached its critical region.
			for len(prio) < len(y.order) {
				prio = append(prio, 10+sched.intn(1000))
			}
			for ci, cp := range changeAt {
				if steps == cp && last >= 0 {
					prio[last] = ci
				}
			}
			pick = runnable[0]
			for _, r := range runnable {
				if prio[r] > prio[pick] {
					pick = r
				}
			}
		} else {
			pick = runnable[sched.intn(len(runnable))]
			if last >= 0 && sched.chance(50) {
				for _, r := range runnable {
					if r == last {
						pick = r
					}
				}
			}
		}
		if pick != last {
			switches++
		}
		last = pick
		if ytrace {
			println("YSCHED resume", pick, y.order[pick].name, "at", y.order[pick].site)
		}
		y.order[pick].resume <- struct{}{}
	}
	y.on = false
	for {
		synctest.Wait()
		released := false
		for _, t := range y.order {
			if t.parked {
				t.resume <- struct{}{}
				released = true
				break
			}
		}
		if !released {
			break
		}
	}
	y.byGoid = map[uint64]*ytask{}
	y.order = nil
	return switches, stuck
}

// mutexesOf finds every sync.Mutex / sync.RWMutex inside a struct, nested struct values included (the
// routing table's revalidation lists carry their own locks), by reflection: the harness must keep compiling
// whatever the fields are called.
func mutexesOf(ptr any) []lockProbe {
	var out []lockProbe
	var walk func(v reflect.Value)
	walk = func(v reflect.Value) {
		for i := 0; i < v.NumField(); i++ {
			f := v.Field(i)
			switch {
			case f.Type() == reflect.TypeOf(sync.Mutex{}):
				out = append(out, lockProbe{mu: (*sync.Mutex)(unsafe.Pointer(f.UnsafeAddr()))})
			case f.Type() == reflect.TypeOf(sync.RWMutex{}):
				out = append(out, lockProbe{rw: (*sync.RWMutex)(unsafe.Pointer(f.UnsafeAddr()))})
			case f.Kind() == reflect.Struct && f.Type().PkgPath() != "sync" && f.Type().PkgPath() != "sync/atomic":
				walk(f)
			case f.Kind() == reflect.Array && f.Len() <= 512 && f.Type().Elem().Kind() == reflect.Struct:
				for k := 0; k < f.Len(); k++ {
					walk(f.Index(k))
				}
			}
		}
	}
	walk(reflect.ValueOf(ptr).Elem())
	return out
}

// drain is the scheduler for engines whose goroutines come and go on their own (the simulated network's
// nodes): whenever the bubble is quiescent, resume one parked goroutine, chosen by the seeded PRNG, until
// nobody is parked any more. Called from world.step before datagrams are delivered and time advances, so
// everything that is active at one virtual instant (two handlers serving offers that arrived together, a
// worker and a handler) interleaves statement by statement wherever no watched mutex is held.
func (y *ysched) drain(sched *prng) (resumed int) {
	last := -1
	for resumed < 20000 {
		var runnable []int
		now := time.Now()
		for i, t := range y.order {
			if t.parked && !now.Before(t.stalledUntil) {
				runnable = append(runnable, i)
			}
		}
		if len(runnable) == 0 {
			return resumed
		}
		pick := runnable[sched.intn(len(runnable))]
		if y.stallPct > 0 && sched.chance(y.stallPct) {
			// a stalled goroutine (descheduled, a pause): it stays where it is for some virtual milliseconds
			// while the rest of the world, the network included, moves on
			t := y.order[pick]
			d := time.Duration(1+sched.intn(y.stallMaxMs)) * time.Millisecond
			t.stalledUntil = now.Add(d)
			y.stalls++
			if y.wake != nil {
				wake := y.wake
				time.AfterFunc(d, func() {
					select {
					case wake <- struct{}{}:
					default:
					}
				})
			}
			continue
		}
		if last >= 0 && sched.chance(40) {
			for _, r := range runnable {
				if r == last {
					pick = r
				}
			}
		}
		last = pick
		if ytrace {
			println("YSCHED resume", pick, y.order[pick].name, "at", y.order[pick].site)
		}
		y.order[pick].resume <- struct{}{}
		resumed++
		synctest.Wait()
	}
	return resumed
}
