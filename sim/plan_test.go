package sim

import (
	"encoding/json"
	"os"
)

// A plan is the explicit form of one run: configuration knobs plus an operation list.
// It is generated from the seed, or loaded from a replay file (VERIF_REPLAY), in which case
// the generator is not consulted: a shrunk plan is self-contained.

type opSpec struct {
	K string  `json:"k"`
	N []int64 `json:"n,omitempty"`
	B string  `json:"b,omitempty"` // hex bytes
	S string  `json:"s,omitempty"`
}

func (o opSpec) n(i int) int64 {
	if i < len(o.N) {
		return o.N[i]
	}
	return 0
}

type plan struct {
	Engine string           `json:"engine"`
	Seed   uint64           `json:"seed"`
	Class  string           `json:"class"`
	Cfg    map[string]int64 `json:"cfg"`
	Ops    []opSpec         `json:"ops"`
}

func (p *plan) cfg(k string) int64 { return p.Cfg[k] }

func loadOrGenPlan(engine string, seed uint64, gen func(r *prng) *plan) *plan {
	var p *plan
	if f := os.Getenv("VERIF_REPLAY"); f != "" {
		b, err := os.ReadFile(f)
		if err != nil {
			fatal2("replay: " + err.Error())
		}
		p = &plan{}
		if err := json.Unmarshal(b, p); err != nil {
			fatal2("replay: " + err.Error())
		}
		if p.Cfg == nil {
			p.Cfg = map[string]int64{}
		}
	} else {
		p = gen(newPrng(seed ^ 0xabcdef))
		p.Engine, p.Seed = engine, seed
	}
	if f := os.Getenv("VERIF_PLANOUT"); f != "" {
		b, _ := json.Marshal(p)
		os.WriteFile(f, b, 0o644)
	}
	return p
}
