package sim

import (
	"bytes"
	"errors"
	"fmt"
	"net"
	"time"

	"github.com/ethereum/go-ethereum/common/hexutil"
	"github.com/ethereum/go-ethereum/p2p/enode"
	"github.com/zen-eth/shisui/portalwire"
	"github.com/zen-eth/shisui/storage"
)

// C08 — FINDCONTENT yields exactly the stored bytes, else closer peers, in one packet.

func init() { engines["c08"] = runC08 }

var versionSets = [][]uint8{{0}, {1}, {0, 1}}

func genC08(r *prng) *plan {
	p := &plan{Cfg: map[string]int64{}}
	p.Cfg["rv"] = int64(r.intn(3))
	p.Cfg["av"] = int64(r.intn(3))
	p.Cfg["pv"] = int64(r.intn(3))
	p.Cfg["faults"] = int64(r.intn(2))
	p.Cfg["drop"] = int64(r.intn(8))
	p.Cfg["dup"] = int64(r.intn(8))
	p.Cfg["jitter_ms"] = int64(r.intn(120))
	p.Cfg["fill"] = int64([]int{0, 3, 20, 60}[r.intn(4)])
	p.Cfg["maxenr"] = int64(r.intn(2))
	if r.chance(35) {
		// the responder's content path under the statement-level yield scheduler, with stalled goroutines:
		// the transfer goroutine may register its accept after the asker's SYN has arrived
		p.Cfg["ysched"] = int64(1 + r.intn(1<<30))
		p.Cfg["stall"] = int64(r.intn(2))
	}
	sizes := []int64{0, 1, 2, 1173, 1174, 1175, 1176, 1177, 1178, 2047, 2048, 2049, 4000, 9000, 20000, 60000, 100000}
	nkeys := 3 + r.intn(5)
	p.Cfg["nkeys"] = int64(nkeys)
	for i := 0; i < nkeys; i++ {
		sz := sizes[r.intn(len(sizes))]
		if r.chance(20) {
			sz = int64(r.intn(3000))
		}
		klen := int64(1 + r.intn(40))
		if r.chance(10) {
			klen = int64(1 + r.intn(800)) // the request must fit one packet even when it rides on a handshake (which carries the ENR)
		}
		p.Ops = append(p.Ops, opSpec{K: "store", N: []int64{int64(i), sz, klen}})
	}
	if r.chance(30) {
		// several large items asked for at (almost) the same time: their transfers overlap
		for i := 0; i < 3; i++ {
			p.Ops = append(p.Ops, opSpec{K: "store", N: []int64{int64(nkeys + i), int64(60000 + r.intn(300000)), int64(1 + r.intn(40))}})
		}
		p.Cfg["nkeys"] = int64(nkeys + 3)
		for i := 0; i < 1+r.intn(3); i++ {
			p.Ops = append(p.Ops, opSpec{K: "parask", N: []int64{int64(2 + r.intn(3)), int64(r.intn(40)), int64(r.u64() >> 1)}})
		}
	}
	n := 4 + r.intn(8)
	for i := 0; i < n; i++ {
		if p.Cfg["faults"] == 1 && r.chance(15) {
			// partition the responder from one asker (one or both directions) for a while, then heal
			p.Ops = append(p.Ops, opSpec{K: "partition", N: []int64{int64(r.intn(2)), int64(r.intn(2)), int64(200 + r.intn(4000))}})
		}
		who := int64(r.intn(2))
		if r.chance(30) {
			p.Ops = append(p.Ops, opSpec{K: "askmissing", N: []int64{who, int64(r.u64() >> 1)}})
		} else if r.chance(12) {
			// the responder's disk fails the read behind this request
			p.Ops = append(p.Ops, opSpec{K: "askreadfault", N: []int64{who, int64(r.intn(nkeys))}})
		} else {
			p.Ops = append(p.Ops, opSpec{K: "ask", N: []int64{who, int64(r.intn(nkeys))}})
		}
	}
	return p
}

func c08key(i int64, klen int64) []byte {
	k := make([]byte, klen)
	for j := range k {
		k[j] = byte(i*31 + int64(j)*7 + 1)
	}
	k[0] = 0x01
	return k
}

func runC08(seed uint64) {
	p := loadOrGenPlan("c08", seed, genC08)
	w := newWorld(seed, "C08", "c08")
	faults := p.cfg("faults") == 1
	w.res.Class = map[bool]string{true: "faults", false: "fault-free"}[faults]
	if p.cfg("ysched") != 0 && p.cfg("stall") == 1 {
		// stalled goroutines are a fault: a transfer goroutine descheduled for some milliseconds between
		// accepting the stream and writing to it makes the dependency's write hang until its timeout
		// (observed on the unchanged tree), so completeness is not demanded; wrong bytes still are
		faults = true
		w.res.Class = "stalled-goroutines"
	}
	rv, av, pv := versionSets[p.cfg("rv")%3], versionSets[p.cfg("av")%3], versionSets[p.cfg("pv")%3]

	rdeco := &decoStore{}
	R := w.newBase(nodeCfg{name: "R", port: 9001, key: detKey(seed, 1), versions: rv, maxUtp: 50, capacityMB: 100,
		wrapStore: func(s storage.ContentStorage) storage.ContentStorage { rdeco.inner = s; return rdeco }})
	rp := R.newPlainProto(portalwire.History)

	A := w.newBase(nodeCfg{name: "A", port: 9002, key: detKey(seed, 2), versions: av, maxUtp: 50, capacityMB: 100})
	ap := A.newPlainProto(portalwire.History)
	if ys := p.cfg("ysched"); ys != 0 {
		w.ys, w.ysRng = newYsched(append(mutexesOf(rp.p), mutexesOf(ap.p)...)), newPrng(uint64(ys))
		if p.cfg("stall") == 1 {
			w.ys.stallPct, w.ys.stallMaxMs = 3, 30
		}
		portalwire.VerifProtoYieldHook = w.ys.yield
		w.ys.wake = w.net.wake
		w.ys.on = true
		w.probe("content_path_yield_scheduled")
	}
	P := w.newPuppet(nodeCfg{name: "P", port: 9003, key: detKey(seed, 3), versions: pv, maxUtp: 50})
	w.net.onSend = func(d *datagram) {
		if len(d.data) > 1280 && d.from == R.sock.addr {
			w.violate("C08", "oversize-datagram", "datagram of %d bytes from the responder %s to %s exceeds one discv5 packet (1280)", len(d.data), d.from, d.to)
		}
		w.j.logf("DG %s>%s %d %x", d.from, d.to, len(d.data), sum8(d.data))
	}
	// filler nodes in R's table
	fill := int(p.cfg("fill"))
	if fill > 0 {
		want := map[int]int{256: 16, 255: 16, 254: 16, 253: 12}
		ks := keysAtDistance(seed, R.id(), want, 100)
		added := 0
		for _, d := range []int{256, 255, 254, 253} {
			for _, k := range ks[d] {
				if added >= fill {
					break
				}
				var n *enode.Node
				if p.cfg("maxenr") == 1 {
					n = maxPadENR(k, net.IP{127, 0, 0, 1}, 20000+added)
				} else {
					n = makeENR(k, net.IP{127, 0, 0, 1}, 20000+added, 1, 0)
				}
				rp.p.AddEnr(n)
				added++
			}
		}
		w.probe(fmt.Sprintf("fill_%d", fill))
	}
	w.runFor(50 * time.Millisecond)
	if faults {
		w.net.faultsOn = true
		w.net.faults = netFaults{MinLatency: 2 * time.Millisecond, Jitter: time.Duration(p.cfg("jitter_ms")) * time.Millisecond, DropPct: int(p.cfg("drop")), DupPct: int(p.cfg("dup"))}
	}

	model := map[string][]byte{}
	keys := map[int64][]byte{}
	for _, op := range p.Ops {
		switch op.K {
		case "store":
			key := c08key(op.n(0), op.n(2))
			val := valueFor(int64(seed)+op.n(0)*977+1, op.n(1))
			if err := rp.p.Put(key, rp.p.ToContentId(key), val); err != nil {
				w.op("store key#%d size=%d: %v", op.n(0), len(val), err)
				continue
			}
			model[string(key)] = val
			keys[op.n(0)] = key
			w.op("store key#%d klen=%d size=%d", op.n(0), len(key), len(val))
		case "partition":
			peer := A.sock.addr
			if op.n(0) == 1 {
				peer = P.sock.addr
			}
			w.net.partition(R.sock.addr, peer, op.n(1) == 1)
			w.op("partition R-%s both=%v for %dms", peer, op.n(1) == 1, op.n(2))
			healAt := w.now() + time.Duration(op.n(2))*time.Millisecond
			go func() {
				time.Sleep(time.Until(w.start.Add(healAt)))
				w.net.heal()
			}()
			w.res.Faults["partition"]++
		case "askreadfault":
			key := keys[op.n(1)]
			if key == nil {
				continue
			}
			want := model[string(key)]
			rdeco.failGet = func(k []byte) error {
				if bytes.Equal(k, key) {
					w.fault("disk_read_error")
					return errors.New("input/output error")
				}
				return nil
			}
			c08AskReadFault(w, P, A, ap, R, op.n(0) == 0, key, want)
			rdeco.failGet = nil
		case "parask":
			nk := int(p.cfg("nkeys"))
			n := int(op.n(0))
			gap := time.Duration(op.n(1)) * time.Millisecond
			var tasks []*task
			for i := 0; i < n; i++ {
				key := keys[int64(nk-1-i%3)]
				if key == nil {
					continue
				}
				want := model[string(key)]
				tasks = append(tasks, w.spawn("parask", func() error {
					res, e := ap.api.FindContent(R.enr(), hexutil.Encode(key))
					if ci, ok := res.(*portalwire.ContentInfo); ok && e == nil {
						got, _ := hexutil.Decode(ci.Content)
						if !bytes.Equal(got, want) {
							w.violate("C08", "wrong-bytes", "one of %d overlapping transfers: the asker got %d bytes (utp=%v), the responder stores %d bytes: %s", n, len(got), ci.UtpTransfer, len(want), diffSummary(got, want))
						} else {
							w.probe("content_ok")
							w.probe("content_ok_overlapping")
						}
					}
					return nil
				}))
				if gap > 0 {
					w.runFor(gap)
				}
			}
			w.runUntil(func() bool {
				for _, t := range tasks {
					if !t.done {
						return false
					}
				}
				return true
			}, 250*time.Second)
			w.op("parask: %d large items asked for %v apart", len(tasks), gap)
			w.abstract("parask n=%d", len(tasks))
		case "ask", "askmissing":
			var key []byte
			if op.K == "ask" {
				key = keys[op.n(1)]
				if key == nil {
					continue
				}
			} else {
				key = append([]byte{0x01}, newPrng(uint64(op.n(1))).bytes(32)...)
			}
			want, stored := model[string(key)]
			if op.n(0) == 0 {
				_, common := highestCommon(av, rv, true)
				c08AskReal(w, A, ap, R, key, want, stored, faults, common)
			} else {
				c08AskRaw(w, P, R, rp, rv, pv, key, want, stored, faults)
			}
		}
	}
	w.res.Nontrivial = w.res.Probes["content_ok"]+w.res.Probes["enrs_ok"] >= 2
	w.finish()
}

func c08AskReal(w *world, A *baseNode, ap *proto, R *baseNode, key, want []byte, stored, faults, common bool) {
	var res any
	ok, err := w.call("findcontent", 200*time.Second, func() error {
		var e error
		res, e = ap.api.FindContent(R.enr(), hexutil.Encode(key))
		return e
	})
	if !ok {
		w.violate("C08", "call-hung", "FindContent did not return within 200 virtual seconds")
		return
	}
	switch v := res.(type) {
	case *portalwire.ContentInfo:
		got, _ := hexutil.Decode(v.Content)
		w.op("ask real size=%d -> content %d bytes utp=%v", len(want), len(got), v.UtpTransfer)
		if !stored {
			w.violate("C08", "content-for-missing-key", "asker got %d content bytes for a key the responder does not hold", len(got))
		} else if !bytes.Equal(got, want) {
			w.violate("C08", "wrong-bytes", "asker got %d bytes (utp=%v), responder stores %d bytes: %s", len(got), v.UtpTransfer, len(want), diffSummary(got, want))
		} else {
			w.probe("content_ok")
			if v.UtpTransfer {
				w.probe("content_ok_utp")
			}
		}
		w.abstract("real content utp=%v sz=%d", v.UtpTransfer, sizeClass(len(want)))
	case *portalwire.EnrsResp:
		w.op("ask real size=%d stored=%v -> %d enrs", len(want), stored, len(v.Enrs))
		if stored && !faults {
			w.violate("C08", "no-content", "responder holds the key (%d bytes) but answered with ENRs", len(want))
		}
		w.probe("enrs_ok")
		w.abstract("real enrs %d", len(v.Enrs))
	default:
		w.op("ask real size=%d stored=%v -> err %v", len(want), stored, err)
		if !faults && stored && (common || len(want) <= 1175) {
			w.violate("C08", "fault-free-failure", "no faults injected, responder holds %d bytes, but FindContent failed: %v", len(want), err)
		}
		w.probe("ask_err")
		w.abstract("real err")
	}
}

func sizeClass(n int) int {
	switch {
	case n == 0:
		return 0
	case n <= 1175:
		return 1
	case n <= 2048:
		return 2
	case n <= 10000:
		return 3
	}
	return 4
}

func diffSummary(got, want []byte) string {
	n := len(got)
	if len(want) < n {
		n = len(want)
	}
	for i := 0; i < n; i++ {
		if got[i] != want[i] {
			return fmt.Sprintf("first difference at byte %d", i)
		}
	}
	return fmt.Sprintf("common prefix of %d bytes, lengths differ", n)
}

func c08AskRaw(w *world, P *puppet, R *baseNode, rp *proto, rv, pv []uint8, key, want []byte, stored, faults bool) {
	// the table can change while the request is under way: membership is judged against the union
	// of the snapshots taken before the request and after the reply
	tab := map[enode.ID]*enode.Node{}
	snap := func() {
		for _, b := range rp.p.VerifTable().Nodes() {
			for _, bn := range b {
				tab[bn.Node.ID()] = bn.Node
			}
		}
	}
	snap()
	var resp []byte
	ok, err := w.call("rawfind", 30*time.Second, func() error {
		var e error
		resp, e = P.talk(R.self(), portalwire.History, encFindContent(key))
		return e
	})
	if !ok {
		w.violate("C08", "call-hung", "raw FINDCONTENT did not return")
		return
	}
	if err != nil {
		w.op("ask raw -> talk error %v", err)
		if !faults {
			w.violate("C08", "fault-free-failure", "no faults injected but the FINDCONTENT request got no reply: %v", err)
		}
		w.abstract("raw err")
		return
	}
	if len(resp)+103 > 1280 {
		w.violate("C08", "oversize-reply", "TALKRESP payload of %d bytes cannot fit one discv5 packet", len(resp))
	}
	rep := decContent(resp)
	switch rep.kind {
	case "raw":
		w.op("ask raw size=%d -> inline %d bytes", len(want), len(rep.raw))
		if !stored {
			w.violate("C08", "content-for-missing-key", "raw asker got inline content for a key the responder does not hold")
		} else if !bytes.Equal(rep.raw, want) {
			w.violate("C08", "wrong-bytes", "inline content (%d bytes) differs from the %d stored bytes: %s", len(rep.raw), len(want), diffSummary(rep.raw, want))
		} else {
			w.probe("content_ok")
			if len(want) >= 1170 {
				w.probe("inline_near_threshold")
			}
		}
		w.abstract("raw inline sz=%d", sizeClass(len(want)))
	case "connid":
		if !stored {
			w.violate("C08", "content-for-missing-key", "raw asker got a connection id for a key the responder does not hold")
			return
		}
		var data []byte
		ok, err := w.call("rawutp", 200*time.Second, func() error {
			var e error
			data, e = P.fetchUtp(R.self(), rep.connID, 100*time.Second)
			return e
		})
		if !ok {
			w.violate("C08", "call-hung", "uTP fetch did not return")
			return
		}
		if err != nil {
			w.op("ask raw size=%d -> connid %d, transfer failed: %v", len(want), rep.connID, err)
			if _, common := highestCommon(pv, rv, true); !faults && common {
				w.violate("C08", "fault-free-failure", "no faults injected but the announced uTP transfer (%d bytes) failed: %v", len(want), err)
			}
			w.abstract("raw utp err")
			return
		}
		// framing by the harness' own version rule
		ver, okv := highestCommon(pv, rv, true)
		got := data
		if okv && ver == 1 {
			n, hdr, derr := unleb128(data)
			if derr != nil || int(n) != len(data)-hdr {
				w.violate("C08", "wrong-bytes", "v1 stream of %d bytes has no valid length prefix covering the rest (prefix=%d hdr=%d)", len(data), n, hdr)
				return
			}
			got = data[hdr:]
		}
		w.op("ask raw size=%d -> connid, stream %d bytes ver=%d", len(want), len(data), ver)
		if !bytes.Equal(got, want) {
			w.violate("C08", "wrong-bytes", "uTP stream content (%d bytes, version %d) differs from the %d stored bytes: %s", len(got), ver, len(want), diffSummary(got, want))
		} else {
			w.probe("content_ok")
			w.probe("content_ok_utp")
			if len(want) <= 1180 {
				w.probe("utp_near_threshold")
			}
		}
		w.abstract("raw utp sz=%d v=%d", sizeClass(len(want)), ver)
	case "enrs":
		w.op("ask raw stored=%v -> %d enrs", stored, len(rep.enrs))
		if stored {
			if !faults {
				w.violate("C08", "no-content", "responder holds the key (%d bytes) but answered with ENRs", len(want))
			}
			return
		}
		// records only from the routing table, non-decreasing log distance, never the asker
		snap()
		cid := enode.ID(rp.p.ToContentId(key))
		last := -1
		for i, n := range rep.enrs {
			if n.ID() == P.id() {
				w.violate("C08", "asker-in-reply", "the reply lists the asker's own record")
			}
			if n.ID() == R.id() {
				w.violate("C08", "not-from-table", "the reply lists the responder itself")
			} else if _, in := tab[n.ID()]; !in {
				w.violate("C08", "not-from-table", "record #%d (%s) is not in the responder's routing table", i, n.ID().TerminalString())
			}
			d := enode.LogDist(n.ID(), cid)
			if d < last {
				w.violate("C08", "order", "records not in non-decreasing log-distance to the content id: %d after %d", d, last)
			}
			last = d
		}
		if _, in := tab[P.id()]; in {
			w.probe("asker_in_table")
		}
		if len(rep.enrs) > 0 {
			w.probe("enrs_nonempty")
		}
		w.probe("enrs_ok")
		w.abstract("raw enrs %d", len(rep.enrs))
	case "empty":
		w.op("ask raw -> empty reply")
		if !faults {
			w.violate("C08", "fault-free-failure", "no faults injected but FINDCONTENT got an empty reply (stored=%v)", stored)
		}
	default:
		w.violate("C08", "malformed-reply", "reply not decodable: %s", rep.badWhy)
	}
}

// c08AskReadFault: the responder holds the key but its disk fails the read. It cannot serve the bytes; what
// it must not do is hand the asker other bytes as the content (an empty item, say): no answer, an empty
// reply or closer peers are all it can honestly give.
func c08AskReadFault(w *world, P *puppet, A *baseNode, ap *proto, R *baseNode, real bool, key, want []byte) {
	if real {
		var res any
		ok, err := w.call("findcontent", 200*time.Second, func() error {
			var e error
			res, e = ap.api.FindContent(R.enr(), hexutil.Encode(key))
			return e
		})
		if !ok {
			w.violate("C08", "call-hung", "FindContent did not return within 200 virtual seconds")
			return
		}
		if v, isContent := res.(*portalwire.ContentInfo); isContent {
			got, _ := hexutil.Decode(v.Content)
			if !bytes.Equal(got, want) {
				w.violate("C08", "wrong-bytes", "the responder's read failed (disk error), yet the asker was handed %d bytes as the content; %d bytes are stored", len(got), len(want))
			}
		}
		w.op("ask real with read fault size=%d -> %T err=%v", len(want), res, err)
		w.abstract("real readfault")
		return
	}
	var resp []byte
	ok, err := w.call("rawfind", 30*time.Second, func() error {
		var e error
		resp, e = P.talk(R.self(), portalwire.History, encFindContent(key))
		return e
	})
	if !ok {
		w.violate("C08", "call-hung", "raw FINDCONTENT did not return")
		return
	}
	rep := decContent(resp)
	w.op("ask raw with read fault size=%d -> %s (%d bytes) err=%v", len(want), rep.kind, len(resp), err)
	w.abstract("raw readfault %s", rep.kind)
	switch rep.kind {
	case "raw":
		if !bytes.Equal(rep.raw, want) {
			w.violate("C08", "wrong-bytes", "the responder's read failed (disk error), yet it answered with %d inline bytes as the content; %d bytes are stored", len(rep.raw), len(want))
		}
	case "connid":
		w.violate("C08", "wrong-bytes", "the responder's read failed (disk error), yet it announced a uTP transfer of the content")
	}
}
