#!/usr/bin/env python3
"""Produce patched copies of four GOROOT/src/runtime files plus an overlay.json.

Nothing is modified in place; the go command maps the patched copies over the
originals with -overlay.  Every hunk must apply exactly once, otherwise exit 2.
usage: mkoverlay.py <goroot> <outdir>
"""
import json, os, sys

def die(msg):
    sys.stderr.write("mkoverlay: " + msg + "\n")
    sys.exit(2)

def patch(src, hunks, name):
    for old, new in hunks:
        if src.count(old) != 1:
            die("%s: hunk does not apply exactly once: %r (count=%d)" % (name, old[:60], src.count(old)))
        src = src.replace(old, new)
    return src

goroot, out = sys.argv[1], sys.argv[2]
rt = os.path.join(goroot, "src", "runtime")
os.makedirs(out, exist_ok=True)
replace = {}

def do(fname, hunks, append=""):
    p = os.path.join(rt, fname)
    s = open(p).read()
    s = patch(s, hunks, fname) + append
    o = os.path.join(out, fname)
    open(o, "w").write(s)
    replace[p] = o

do("select.go", [
    ("j := cheaprandn(uint32(norder + 1))", "j := verifSelRandn(uint32(norder + 1))"),
])

do("time.go", [
    ("\t\t\tt.rand = cheaprand()\n", "\t\t\tt.rand = uint32(verifDetNext(&verifDet[0]) >> 32)\n"),
    ("\tts.trace(\"check\")\n\t// If it's not yet time for the first timer, or the first adjusted\n",
     "\tts.trace(\"check\")\n\tif bubble == nil && verifFreezeRealTimers {\n\t\treturn now, 0, false\n\t}\n\t// If it's not yet time for the first timer, or the first adjusted\n"),
], append="""
// verif: while set, timers that do not belong to a synctest bubble do not fire.
var verifFreezeRealTimers bool

//go:linkname verifSetFreezeRealTimers
func verifSetFreezeRealTimers(b bool) { verifFreezeRealTimers = b }
""")

do("proc.go", [
    ("const forcePreemptNS = 10 * 1000 * 1000 // 10ms", "const forcePreemptNS = 3600 * 1000 * 1000 * 1000 // verif: 1h"),
    ("func execute(gp *g, inheritTime bool) {\n\tmp := getg().m\n", "func execute(gp *g, inheritTime bool) {\n\tverifExecTicks++\n\tmp := getg().m\n"),
    # a registered goroutine that wakes another one (cond signal, channel send, unlock of a contended mutex) may lose the
    # processor to it at once, as happens when the woken goroutine starts on another core
    ("\trunqput(mp.p.ptr(), gp, next)\n\twakep()\n\treleasem(mp)\n}\n\n// freezeStopWait is", "\trunqput(mp.p.ptr(), gp, next)\n\twakep()\n\tif verifPreemptN != 0 {\n\t\tverifWakePreempt(mp)\n\t}\n\treleasem(mp)\n}\n\n// freezeStopWait is"),
    # a goroutine that yields (Gosched, or a seeded preemption) goes to the tail of the P's own queue, not to the
    # global queue: the global queue is looked at every 61st scheduling round, and the round counter also
    # advances for runtime goroutines that sysmon injects at wall-clock-dependent moments (scavenger)
    ("\tif preempted && sched.gcwaiting.Load() {\n", "\tif verifDetOn {\n\t\trunqput(pp, gp, false)\n\t} else if preempted && sched.gcwaiting.Load() {\n"),
], append="""
// verif: number of times any goroutine was given the processor (single P: a plain counter). A process
// whose count stands still is blocked for good; the simulator's wedge watcher reads it.
var verifExecTicks uint64

//go:linkname verifExecTickCount
func verifExecTickCount() uint64 { return verifExecTicks }

// verif: identity of the calling goroutine, for the simulator's cooperative yield points.
//
//go:linkname verifGoid
func verifGoid() uint64 { return getg().goid }
""")

do("rand.go", [
    # fixed process seed: hashkey / aeskeysched / per-M chacha state identical in every process
    ("\tseed := &globalRand.seed\n\tif len(startupRand) >= 16 &&",
     "\tseed := &globalRand.seed\n\tfor i := range seed {\n\t\tseed[i] = byte(i*37 + 11)\n\t}\n\tif false && len(startupRand) >= 16 &&"),
    ("\t} else {\n\t\tif readRandom(seed[:]) != len(seed) || allZero(seed[:]) {",
     "\t} else if false {\n\t\tif readRandom(seed[:]) != len(seed) || allZero(seed[:]) {"),
    # a new M (created whenever the P is handed over after a blocking system call: wall-clock dependent) must not
    # draw from the seeded stream that user code (math/rand/v2, crypto's MaybeReadByte) reads
    ("\tmp.cheaprand = rand()\n", "\tmp.cheaprand = uint64(mp.id)*0x9e3779b97f4a7c15 + 0x1234567\n"),
    ("func rand() uint64 {\n", "func rand() uint64 {\n\tif verifDetOn {\n\t\treturn verifDetNext(&verifDet[2])\n\t}\n"),
    ("func maps_rand() uint64 {\n\treturn rand()\n}", "func maps_rand() uint64 {\n\tif verifDetOn {\n\t\treturn verifDetNext(&verifDet[1])\n\t}\n\treturn rand()\n}"),
], append="""
// verif: seedable global splitmix64 streams.
// 0: select poll order and same-instant bubble timer order, 1: map seeds, 2: rand(), 3: interface cache rebuilds.
var verifDet [4]uint64
var verifDetOn = true

//go:nosplit
func verifDetNext(s *uint64) uint64 {
	*s += 0x9e3779b97f4a7c15
	z := *s
	z = (z ^ (z >> 30)) * 0xbf58476d1ce4e5b9
	z = (z ^ (z >> 27)) * 0x94d049bb133111eb
	return z ^ (z >> 31)
}

//go:nosplit
func verifSelRandn(n uint32) uint32 {
	if !verifDetOn {
		return cheaprandn(n)
	}
	x := uint32(verifDetNext(&verifDet[0]) >> 32)
	return uint32((uint64(x) * uint64(n)) >> 32)
}

//go:linkname verifSetDetSeed
func verifSetDetSeed(seed uint64) {
	verifDet[0] = seed ^ 0x1111111111111111
	verifDet[1] = seed ^ 0x2222222222222222
	verifDet[2] = seed ^ 0x3333333333333333
	verifDet[3] = seed ^ 0x4444444444444444
	verifDetOn = true
}
""")

do("malloc.go", [
    ("\t// Short-circuit zero-sized allocation requests.\n\tif size == 0 {\n\t\treturn unsafe.Pointer(&zerobase)\n\t}\n\n\tif sizeSpecializedMallocEnabled && heapBitsInSpan(size) {",
     "\t// Short-circuit zero-sized allocation requests.\n\tif size == 0 {\n\t\treturn unsafe.Pointer(&zerobase)\n\t}\n\tif verifPreemptN != 0 {\n\t\tverifMaybePreempt()\n\t}\n\n\tif sizeSpecializedMallocEnabled && heapBitsInSpan(size) {"),
], append="""
// verif: seeded preemption. A goroutine that registered itself is asked to yield the processor (exactly
// as sysmon asks a goroutine that has run for 10 ms: preempt flag + poisoned stack guard, honoured at the
// next function prologue) after a pseudo-random number of its own allocations. With a single P, the
// forced-preemption timer moved out of reach and asynchronous preemption off, this is the only way a
// goroutine loses the processor between two blocking operations, and it is a pure function of the seed.
type verifPreemptEntry struct {
	goid   uint64
	left   int64
	period uint64
	state  uint64
	count  uint64
}

var verifPreemptG [64]verifPreemptEntry
var verifPreemptN int

func verifMaybePreempt() {
	gp := getg()
	if gp.m.curg != gp {
		return
	}
	id := gp.goid
	for i := 0; i < verifPreemptN; i++ {
		e := &verifPreemptG[i]
		if e.goid != id {
			continue
		}
		e.left--
		if e.left <= 0 {
			e.left = 1 + int64(verifDetNext(&e.state)%e.period)
			e.count++
			gp.preempt = true
			gp.stackguard0 = stackPreempt
		}
		return
	}
}

// verifWakePreempt: called from ready() on behalf of the goroutine that runs on mp.
func verifWakePreempt(mp *m) {
	cur := mp.curg
	if cur == nil {
		return
	}
	id := cur.goid
	for i := 0; i < verifPreemptN; i++ {
		e := &verifPreemptG[i]
		if e.goid != id {
			continue
		}
		if e.period > 64 {
			return // a goroutine that is not to be disturbed during this task
		}
		if verifDetNext(&e.state)&1 == 0 {
			e.count++
			cur.preempt = true
			cur.stackguard0 = stackPreempt
		}
		return
	}
}

// verifPreemptMe registers (period > 0) or unregisters (period == 0) the calling goroutine; it returns
// how often the goroutine was asked to yield so far.
//
//go:linkname verifPreemptMe
func verifPreemptMe(period uint64, seed uint64) uint64 {
	id := getg().goid
	for i := 0; i < verifPreemptN; i++ {
		e := &verifPreemptG[i]
		if e.goid == id {
			n := e.count
			if period == 0 {
				verifPreemptG[i] = verifPreemptG[verifPreemptN-1]
				verifPreemptN--
			} else {
				e.period, e.state = period, seed
			}
			return n
		}
	}
	if period == 0 || verifPreemptN == len(verifPreemptG) {
		return 0
	}
	e := &verifPreemptG[verifPreemptN]
	*e = verifPreemptEntry{goid: id, period: period, state: seed}
	e.left = 1 + int64(verifDetNext(&e.state)%period)
	verifPreemptN++
	return 0
}
""")

# type-assertion / interface-switch caches are rebuilt "one time in about 1000", decided by the per-M cheaprand:
# which M runs the single P is not ours to decide, and a rebuild allocates (it would move every later
# seeded preemption point of the goroutine by one). Decided by a process-wide seeded stream instead.
s_iface = open(os.path.join(goroot, "src/runtime/iface.go")).read()
n_sites = s_iface.count("cheaprand()&")
if n_sites != 4:
    die("iface.go: expected 4 cheaprand sites, found %d" % n_sites)
o = os.path.join(out, "iface.go")
s_iface = s_iface.replace("cheaprand()&", "uint32(verifDetNext(&verifDet[3])>>32)&")
open(o, "w").write(s_iface)
replace[os.path.join(goroot, "src/runtime/iface.go")] = o

# sync.Mutex measures how long a waiter has waited with the REAL monotonic clock and switches to starvation mode
# (direct hand-off, FIFO) after 1 ms: on a loaded machine the order in which contending goroutines get a mutex
# then differs from run to run. Only visible once lock holders can lose the processor (seeded preemption).
# The clock sync sees stands still: mutexes stay in normal mode.
do("sema.go", [
    ("func internal_sync_nanotime() int64 {\n\treturn nanotime()\n}", "func internal_sync_nanotime() int64 {\n\tif verifDetOn {\n\t\treturn 0\n\t}\n\treturn nanotime()\n}"),
])

json.dump({"Replace": replace}, open(os.path.join(out, "overlay.json"), "w"), indent=1)
print("mkoverlay: wrote", len(replace), "files to", out)
