#!/usr/bin/env python3
"""Produce patched copies of four GOROOT/src/runtime files plus an overlay.json.

Nothing is modified in place; the go command maps the patched copies over the
originals with -overlay.  Every hunk must apply exactly once, otherwise exit 2.
usage: mkoverlay.py <goroot> <outdir>
"""
import json, os, sys

def die(msg):
    sys.stderr.write("mkoverlay: " + msg + "\n")
    sys.exit(2)

def patch(src, hunks, name):
    for old, new in hunks:
        if src.count(old) != 1:
            die("%s: hunk does not apply exactly once: %r (count=%d)" % (name, old[:60], src.count(old)))
        src = src.replace(old, new)
    return src

goroot, out = sys.argv[1], sys.argv[2]
rt = os.path.join(goroot, "src", "runtime")
os.makedirs(out, exist_ok=True)
replace = {}

def do(fname, hunks, append=""):
    p = os.path.join(rt, fname)
    s = open(p).read()
    s = patch(s, hunks, fname) + append
    o = os.path.join(out, fname)
    open(o, "w").write(s)
    replace[p] = o

do("select.go", [
    ("j := cheaprandn(uint32(norder + 1))", "j := verifSelRandn(uint32(norder + 1))"),
])

do("time.go", [
    ("\t\t\tt.rand = cheaprand()\n", "\t\t\tt.rand = uint32(verifDetNext(&verifDet[0]) >> 32)\n"),
    ("\tts.trace(\"check\")\n\t// If it's not yet time for the first timer, or the first adjusted\n",
     "\tts.trace(\"check\")\n\tif bubble == nil && verifFreezeRealTimers {\n\t\treturn now, 0, false\n\t}\n\t// If it's not yet time for the first timer, or the first adjusted\n"),
], append="""
// verif: while set, timers that do not belong to a synctest bubble do not fire.
var verifFreezeRealTimers bool

//go:linkname verifSetFreezeRealTimers
func verifSetFreezeRealTimers(b bool) { verifFreezeRealTimers = b }
""")

do("proc.go", [
    ("const forcePreemptNS = 10 * 1000 * 1000 // 10ms", "const forcePreemptNS = 3600 * 1000 * 1000 * 1000 // verif: 1h"),
    ("func execute(gp *g, inheritTime bool) {\n\tmp := getg().m\n", "func execute(gp *g, inheritTime bool) {\n\tverifExecTicks++\n\tmp := getg().m\n"),
], append="""
// verif: number of times any goroutine was given the processor (single P: a plain counter). A process
// whose count stands still is blocked for good; the simulator's wedge watcher reads it.
var verifExecTicks uint64

//go:linkname verifExecTickCount
func verifExecTickCount() uint64 { return verifExecTicks }

// verif: identity of the calling goroutine, for the simulator's cooperative yield points.
//
//go:linkname verifGoid
func verifGoid() uint64 { return getg().goid }
""")

do("rand.go", [
    # fixed process seed: hashkey / aeskeysched / per-M chacha state identical in every process
    ("\tseed := &globalRand.seed\n\tif len(startupRand) >= 16 &&",
     "\tseed := &globalRand.seed\n\tfor i := range seed {\n\t\tseed[i] = byte(i*37 + 11)\n\t}\n\tif false && len(startupRand) >= 16 &&"),
    ("\t} else {\n\t\tif readRandom(seed[:]) != len(seed) || allZero(seed[:]) {",
     "\t} else if false {\n\t\tif readRandom(seed[:]) != len(seed) || allZero(seed[:]) {"),
    ("func rand() uint64 {\n", "func rand() uint64 {\n\tif verifDetOn {\n\t\treturn verifDetNext(&verifDet[2])\n\t}\n"),
    ("func maps_rand() uint64 {\n\treturn rand()\n}", "func maps_rand() uint64 {\n\tif verifDetOn {\n\t\treturn verifDetNext(&verifDet[1])\n\t}\n\treturn rand()\n}"),
], append="""
// verif: seedable global splitmix64 streams.
// 0: select poll order and same-instant bubble timer order, 1: map seeds, 2: rand().
var verifDet [3]uint64
var verifDetOn = true

//go:nosplit
func verifDetNext(s *uint64) uint64 {
	*s += 0x9e3779b97f4a7c15
	z := *s
	z = (z ^ (z >> 30)) * 0xbf58476d1ce4e5b9
	z = (z ^ (z >> 27)) * 0x94d049bb133111eb
	return z ^ (z >> 31)
}

//go:nosplit
func verifSelRandn(n uint32) uint32 {
	if !verifDetOn {
		return cheaprandn(n)
	}
	x := uint32(verifDetNext(&verifDet[0]) >> 32)
	return uint32((uint64(x) * uint64(n)) >> 32)
}

//go:linkname verifSetDetSeed
func verifSetDetSeed(seed uint64) {
	verifDet[0] = seed ^ 0x1111111111111111
	verifDet[1] = seed ^ 0x2222222222222222
	verifDet[2] = seed ^ 0x3333333333333333
	verifDetOn = true
}
""")

json.dump({"Replace": replace}, open(os.path.join(out, "overlay.json"), "w"), indent=1)
print("mkoverlay: wrote", len(replace), "files to", out)
