// instr inserts cooperative yield points into a copy of storage/pebble/storage.go.
//
//	instr <in.go> <out.go>
//
// Before every statement in the body of every method of *ContentStorage (recursively through
// blocks, if/for/switch/select bodies, but not inside function literals) it inserts
// `VerifYield("<func>:<line>")`. Insertion is structural, so it keeps working when the file
// is edited. The companion file verif_yield.go declares the hook variable.
package main

import (
	"fmt"
	"go/ast"
	"go/format"
	"go/parser"
	"go/token"
	"os"
)

func main() {
	if len(os.Args) != 3 {
		fmt.Fprintln(os.Stderr, "usage: instr in.go out.go")
		os.Exit(2)
	}
	fset := token.NewFileSet()
	f, err := parser.ParseFile(fset, os.Args[1], nil, parser.ParseComments)
	if err != nil {
		fmt.Fprintln(os.Stderr, "instr:", err)
		os.Exit(2)
	}
	n := 0
	for _, d := range f.Decls {
		fd, ok := d.(*ast.FuncDecl)
		if !ok || fd.Body == nil || fd.Recv == nil || len(fd.Recv.List) != 1 {
			continue
		}
		st, ok := fd.Recv.List[0].Type.(*ast.StarExpr)
		if !ok {
			continue
		}
		id, ok := st.X.(*ast.Ident)
		if !ok || id.Name != "ContentStorage" {
			continue
		}
		n += instrBlock(fset, fd.Name.Name, fd.Body)
	}
	if n == 0 {
		fmt.Fprintln(os.Stderr, "instr: no yield point inserted (no *ContentStorage methods found)")
		os.Exit(2)
	}
	out, err := os.Create(os.Args[2])
	if err != nil {
		fmt.Fprintln(os.Stderr, "instr:", err)
		os.Exit(2)
	}
	// comments are dropped on purpose: free-floating comments confuse positions after insertion
	f.Comments = nil
	if err := format.Node(out, fset, f); err != nil {
		fmt.Fprintln(os.Stderr, "instr:", err)
		os.Exit(2)
	}
	out.Close()
	fmt.Fprintf(os.Stderr, "instr: %d yield points\n", n)
}

func yieldStmt(site string) ast.Stmt {
	return &ast.ExprStmt{X: &ast.CallExpr{
		Fun:  ast.NewIdent("VerifYield"),
		Args: []ast.Expr{&ast.BasicLit{Kind: token.STRING, Value: fmt.Sprintf("%q", site)}},
	}}
}

func instrBlock(fset *token.FileSet, fn string, b *ast.BlockStmt) int {
	if b == nil {
		return 0
	}
	n := 0
	var out []ast.Stmt
	for _, s := range b.List {
		site := fmt.Sprintf("%s:%d", fn, fset.Position(s.Pos()).Line)
		out = append(out, yieldStmt(site))
		n++
		n += instrStmt(fset, fn, s)
		out = append(out, s)
	}
	b.List = out
	return n
}

func instrStmt(fset *token.FileSet, fn string, s ast.Stmt) int {
	n := 0
	switch x := s.(type) {
	case *ast.BlockStmt:
		n += instrBlock(fset, fn, x)
	case *ast.IfStmt:
		n += instrBlock(fset, fn, x.Body)
		if x.Else != nil {
			n += instrStmt(fset, fn, x.Else)
		}
	case *ast.ForStmt:
		n += instrBlock(fset, fn, x.Body)
	case *ast.RangeStmt:
		n += instrBlock(fset, fn, x.Body)
	case *ast.SwitchStmt:
		n += instrBlock(fset, fn, x.Body)
	case *ast.TypeSwitchStmt:
		n += instrBlock(fset, fn, x.Body)
	case *ast.SelectStmt:
		n += instrBlock(fset, fn, x.Body)
	case *ast.CaseClause:
		bb := &ast.BlockStmt{List: x.Body}
		n += instrBlock(fset, fn, bb)
		x.Body = bb.List
	case *ast.CommClause:
		bb := &ast.BlockStmt{List: x.Body}
		n += instrBlock(fset, fn, bb)
		x.Body = bb.List
	case *ast.LabeledStmt:
		n += instrStmt(fset, fn, x.Stmt)
	}
	return n
}
