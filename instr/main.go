// instr inserts cooperative yield points into a copy of a source file of the repository.
//
//	instr [-recv T1,T2] [-funcs f1,f2] [-hook Name] <in.go> <out.go>
//
// Before every statement in the body of every method of *T (default *ContentStorage; recursively
// through blocks, if/for bodies, the clauses of switch/select and the bodies of function literals started
// with go / defer, but not other function literals)
// it inserts `Name("<func>:<line>")` (default VerifYield). Insertion is structural, so it keeps
// working when the file is edited. The hook variable is declared by a build-tag-guarded file of the
// repository (storage/pebble) or by a file the build overlay adds to the package (portalwire).
package main

import (
	"fmt"
	"go/ast"
	"go/format"
	"go/parser"
	"go/token"
	"os"
	"strings"
)

var hookName = "VerifYield"

// lockHook, when set, is called instead of the plain hook before statements of the form X.Lock() / X.RLock(),
// with the address of X: the scheduler then knows which mutex the goroutine is about to take.
var lockHook = ""

func main() {
	recv := map[string]bool{"ContentStorage": true}
	args := os.Args[1:]
	var funcs map[string]bool // nil: every method of the receiver types
	for len(args) >= 2 && (args[0] == "-recv" || args[0] == "-hook" || args[0] == "-funcs" || args[0] == "-lockhook") {
		switch args[0] {
		case "-recv":
			recv = map[string]bool{}
			for _, t := range strings.Split(args[1], ",") {
				recv[t] = true
			}
		case "-lockhook":
			lockHook = args[1]
		case "-funcs":
			funcs = map[string]bool{}
			for _, t := range strings.Split(args[1], ",") {
				funcs[t] = true
			}
		default:
			hookName = args[1]
		}
		args = args[2:]
	}
	if len(args) != 2 {
		fmt.Fprintln(os.Stderr, "usage: instr [-recv T1,T2] [-funcs f1,f2] [-hook Name] in.go out.go")
		os.Exit(2)
	}
	fset := token.NewFileSet()
	f, err := parser.ParseFile(fset, args[0], nil, parser.ParseComments)
	if err != nil {
		fmt.Fprintln(os.Stderr, "instr:", err)
		os.Exit(2)
	}
	n := 0
	for _, d := range f.Decls {
		fd, ok := d.(*ast.FuncDecl)
		if !ok || fd.Body == nil || fd.Recv == nil || len(fd.Recv.List) != 1 {
			continue
		}
		st, ok := fd.Recv.List[0].Type.(*ast.StarExpr)
		if !ok {
			continue
		}
		id, ok := st.X.(*ast.Ident)
		if !ok || !recv[id.Name] || (funcs != nil && !funcs[fd.Name.Name]) {
			continue
		}
		n += instrBlock(fset, fd.Name.Name, fd.Body)
	}
	if n == 0 {
		fmt.Fprintln(os.Stderr, "instr: no yield point inserted (no methods of the given receiver types found)")
		os.Exit(2)
	}
	out, err := os.Create(args[1])
	if err != nil {
		fmt.Fprintln(os.Stderr, "instr:", err)
		os.Exit(2)
	}
	// comments are dropped on purpose: free-floating comments confuse positions after insertion
	f.Comments = nil
	if err := format.Node(out, fset, f); err != nil {
		fmt.Fprintln(os.Stderr, "instr:", err)
		os.Exit(2)
	}
	out.Close()
	fmt.Fprintf(os.Stderr, "instr: %d yield points\n", n)
}

// lockTarget returns X for a statement of the form X.Lock() or X.RLock().
func lockTarget(s ast.Stmt) ast.Expr {
	es, ok := s.(*ast.ExprStmt)
	if !ok {
		return nil
	}
	call, ok := es.X.(*ast.CallExpr)
	if !ok || len(call.Args) != 0 {
		return nil
	}
	sel, ok := call.Fun.(*ast.SelectorExpr)
	if !ok || (sel.Sel.Name != "Lock" && sel.Sel.Name != "RLock") {
		return nil
	}
	return sel.X
}

func yieldStmt(site string) ast.Stmt {
	return &ast.ExprStmt{X: &ast.CallExpr{
		Fun:  ast.NewIdent(hookName),
		Args: []ast.Expr{&ast.BasicLit{Kind: token.STRING, Value: fmt.Sprintf("%q", site)}},
	}}
}

func instrBlock(fset *token.FileSet, fn string, b *ast.BlockStmt) int {
	if b == nil {
		return 0
	}
	n := 0
	var out []ast.Stmt
	for _, s := range b.List {
		site := fmt.Sprintf("%s:%d", fn, fset.Position(s.Pos()).Line)
		if mu := lockTarget(s); mu != nil && lockHook != "" {
			out = append(out, &ast.ExprStmt{X: &ast.CallExpr{
				Fun: ast.NewIdent(lockHook),
				Args: []ast.Expr{&ast.BasicLit{Kind: token.STRING, Value: fmt.Sprintf("%q", site)},
					&ast.UnaryExpr{Op: token.AND, X: mu}},
			}})
			n++
			n += instrStmt(fset, fn, s)
			out = append(out, s)
			continue
		}
		out = append(out, yieldStmt(site))
		n++
		n += instrStmt(fset, fn, s)
		out = append(out, s)
	}
	b.List = out
	return n
}

// instrClauses: the body of a switch / select is a list of clauses; nothing may stand between them.
func instrClauses(fset *token.FileSet, fn string, b *ast.BlockStmt) int {
	n := 0
	if b == nil {
		return 0
	}
	for _, c := range b.List {
		n += instrStmt(fset, fn, c)
	}
	return n
}

func instrStmt(fset *token.FileSet, fn string, s ast.Stmt) int {
	n := 0
	switch x := s.(type) {
	case *ast.BlockStmt:
		n += instrBlock(fset, fn, x)
	case *ast.IfStmt:
		n += instrBlock(fset, fn, x.Body)
		if x.Else != nil {
			n += instrStmt(fset, fn, x.Else)
		}
	case *ast.ForStmt:
		n += instrBlock(fset, fn, x.Body)
	case *ast.RangeStmt:
		n += instrBlock(fset, fn, x.Body)
	case *ast.SwitchStmt:
		n += instrClauses(fset, fn, x.Body)
	case *ast.TypeSwitchStmt:
		n += instrClauses(fset, fn, x.Body)
	case *ast.SelectStmt:
		n += instrClauses(fset, fn, x.Body)
	case *ast.CaseClause:
		bb := &ast.BlockStmt{List: x.Body}
		n += instrBlock(fset, fn, bb)
		x.Body = bb.List
	case *ast.CommClause:
		bb := &ast.BlockStmt{List: x.Body}
		n += instrBlock(fset, fn, bb)
		x.Body = bb.List
	case *ast.LabeledStmt:
		n += instrStmt(fset, fn, x.Stmt)
	case *ast.GoStmt:
		// the body of a goroutine started from an instrumented method belongs to it
		if fl, ok := x.Call.Fun.(*ast.FuncLit); ok {
			n += instrBlock(fset, fn+".go", fl.Body)
		}
	case *ast.DeferStmt:
		if fl, ok := x.Call.Fun.(*ast.FuncLit); ok {
			n += instrBlock(fset, fn+".defer", fl.Body)
		}
	}
	return n
}
