module verif/instr

go 1.26.8
