#!/usr/bin/env python3
"""Regenerate MANIFEST.json from props.json + manifest_meta.json (texts per property)."""
import json
props=json.load(open('/verif/props.json'))
meta=json.load(open('/verif/manifest_meta.json'))
allprops=[json.loads(l) for l in open('/verif/properties.jsonl')]
checks=[]
na=[]
for p in allprops:
    pid=p['id']
    if pid in props and pid in meta['checks']:
        m=meta['checks'][pid]
        checks.append({
            "property_id":pid,
            "quick_cmd":"./check.sh %s quick"%pid,
            "thorough_cmd":"./check.sh %s thorough"%pid,
            "evidence_file":"/verif/evidence/%s.json"%pid,
            "replay_cmd_template":"./replay.sh {path}",
            "engine":m['engine'],
            "level_claimed":{"category":props[pid]['level'],"text":m['level_text'],"design_ref":m['design_ref']},
            "level_note":m['level_note'],
            "technique":m['technique'],
        })
    else:
        na.append({"property_id":pid,"reason":meta['not_applicable'].get(pid,"not claimed: no check built yet for this property in this session")})
man={
 "version":1,
 "setup_cmd":"./setup.sh && ./prebuild.sh",
 "hooks":{
  "guard":"verif",
  "enable":"go1.26.8 test -c -tags verif[,invariants] -overlay <build dir>/instr.d/<key>/overlay.json: (a) runtime overlay of GOROOT files select.go, time.go, proc.go, rand.go, iface.go, malloc.go, sema.go (seeded streams, frozen real timers, seeded preemption, deterministic yields; DESIGN Appendix A); (b) yield-instrumented copies of storage/pebble/storage.go, portalwire/table.go, table_reval.go, portal_protocol.go, portal_protocol_v1.go made by instr/ at build time; (c) two files the overlay adds to repository packages without touching the repository: portalwire/zz_verif_yield.go (hook variables for table / offer path / gossip yields, VerifAppendBucketNodes) and storage/pebble/zz_verif_yieldlock.go; (d) the build-tag-guarded hook files committed in /repo (source_commits); see build.sh",
  "baseline_off_cmd":meta['baseline_off_cmd'],
  "source_commits":meta['hook_commits'],
  "add_only":True,
 },
 "engines":meta['engines'],
 "checks":checks,
 "notes":meta['notes'],
 "not_applicable":na,
}
json.dump(man,open('/verif/MANIFEST.json','w'),indent=1)
print("manifest: %d checks, %d not claimed"%(len(checks),len(na)))
