#!/bin/bash
# Build-time substrate for the simulator. Offline; everything lands in /verif/.build.
set -euo pipefail
cd "$(dirname "$0")"
V=$(pwd)
. "$V/env.sh"
B="$V/.build"
mkdir -p "$B"

# 1. runtime overlay (patched copies of 4 GOROOT files)
python3 "$V/rtoverlay/mkoverlay.py" "$VERIF_GOROOT" "$B/rtoverlay"

# 2. trimmed copy of the go-ethereum fork with a virtual mclock
GETH_SRC=$(cd /repo && $GO list -m -f '{{.Dir}}' github.com/ethereum/go-ethereum)
STAMP="$B/geth/.stamp"
if [ ! -f "$STAMP" ] || [ "$(cat "$STAMP")" != "$GETH_SRC" ]; then
  rm -rf "$B/geth"
  mkdir -p "$B/geth"
  rsync -a --chmod=u+w --exclude '/cmd' --exclude '/docs' --exclude '/signer' --exclude '/tests' \
     --exclude '/graphql' --exclude '/.git*' --exclude '/build' --exclude '/swarm' --exclude '/eth/tracers/internal/tracetest/testdata' \
     --exclude '/core/vm/testdata' --exclude '/crypto/bn256/cloudflare/*.s.disabled' \
     "$GETH_SRC/" "$B/geth/"
  python3 - "$B/geth/common/mclock/mclock.go" <<'PY'
import sys,re
p=sys.argv[1]; s=open(p).read()
old="func Now() AbsTime {\n\treturn AbsTime(nanotime())\n}"
if s.count(old)!=1:
    sys.stderr.write("setup: mclock.Now hunk does not apply\n"); sys.exit(2)
s=s.replace(old,"func Now() AbsTime {\n\treturn AbsTime(time.Since(time.Unix(0, 0))) // verif: virtual inside a synctest bubble\n}")
open(p,"w").write(s)
PY
  echo "$GETH_SRC" > "$STAMP"
fi
# 3. yield-point instrumenter
(cd "$V/instr" && $GO build -o "$B/instr" .)
echo "setup: ok"
